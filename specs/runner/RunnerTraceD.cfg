SPECIFICATION TSpec
CONSTANTS
  Cfgs = {}
  Eager = TRUE
  Fifo = TRUE
  MaxStk = 100000
INVARIANTS Done DInvariants
CHECK_DEADLOCK FALSE
