------------------------------ MODULE Runner ------------------------------
(***************************************************************************)
(* Design spec D of dawn's target runner (runner/runner.go), written at    *)
(* the grain of the scheduling points ("yields") that the verif hooks      *)
(* expose in the real code: one action = the code one goroutine executes   *)
(* between two consecutive yields (or until it blocks in a cond wait).     *)
(*                                                                         *)
(* Threads: "main" (the caller of Run) and one goroutine per started       *)
(* label.  th[t].pc names the yield a thread is parked at:                 *)
(*                                                                         *)
(*   main:   start -> wait -> (dep.wait) -> done                           *)
(*   target: run.enter -> gate.enter[init] -> (gate.wait) -> run.load ->   *)
(*           h.load -> h.eval -> et.enter -> gate.exit[et] -> start(i)* -> *)
(*           et.publish -> et.check -> check.load* -> wait(i)* ->          *)
(*           (dep.wait) -> et.clear -> gate.enter[reenter] -> (gate.wait)  *)
(*           -> h.eval2 -> run.finish -> gate.exit[final] -> done          *)
(*                                                                         *)
(* h.load / h.eval / h.eval2 are yields inside the harness's own           *)
(* LoadTarget / Evaluate (the target's "body").                            *)
(*                                                                         *)
(* The configuration (graph, unknown and failing labels, root, limit) is   *)
(* a variable chosen in Init, so one TLC run covers a whole set of graphs. *)
(* Every action that has an observable effect feeds the same events to     *)
(* the property monitor RunnerMon that the harness logs from the real code.*)
(***************************************************************************)
EXTENDS Integers, Sequences, FiniteSets, TLC, RunnerMon

CONSTANTS Cfgs,    \* set of configurations [deps, unknown, failing, root, limit]
          Eager,   \* TRUE: a woken thread runs before any parked one (controlled scheduler)
          Fifo,    \* TRUE: Signal wakes the longest waiting thread (Go's notify list)
          MaxStk   \* depth at which the cycle walk's stack is folded (see Push)

VARIABLES cfg, status, err, waiting, cap, gq, th, mon, hist, fin

vars == <<cfg, status, err, waiting, cap, gq, th, mon, hist, fin>>

L == DOMAIN cfg.deps
Threads == L \cup {"main"}
SetOf(s) == { s[i] : i \in DOMAIN s }
Unknown == SetOf(cfg.unknown)
Failing == SetOf(cfg.failing)

NoThread == [pc |-> "none", ctx |-> "", i |-> 0, stk |-> <<>>, res |-> <<>>, pst |-> "", per |-> "", woken |-> FALSE]
NilW == [set |-> FALSE, list |-> <<>>]

\* initial values for configuration c (also used by the trace specs to restart)
InitState(c) ==
    [ cfg     |-> c,
      status  |-> [l \in DOMAIN c.deps |-> "idle"],
      err     |-> [l \in DOMAIN c.deps |-> ""],
      waiting |-> [l \in DOMAIN c.deps |-> NilW],
      cap     |-> c.limit,
      gq      |-> <<>>,
      th      |-> [t \in (DOMAIN c.deps) \cup {"main"} |-> IF t = "main" THEN [NoThread EXCEPT !.pc = "start"] ELSE NoThread],
      mon     |-> MonInit(c) ]

Init ==
    \E c \in Cfgs : LET s == InitState(c) IN
        /\ cfg = s.cfg /\ status = s.status /\ err = s.err /\ waiting = s.waiting
        /\ cap = s.cap /\ gq = s.gq /\ th = s.th /\ mon = s.mon
        /\ hist = <<>>
        /\ fin = FALSE

\* feed a sequence of events to the monitor
RECURSIVE Feed(_, _)
Feed(m, es) == IF es = <<>> THEN m ELSE Feed(Mon(Head(es), m), Tail(es))

AnyWoken == \E t \in Threads : th[t].woken

--------------------------------------------------------------------------
(* The cycle walk (engine.check / checkDeps) as an explicit DFS stack of   *)
(* frames [list, idx]; the element under the cursor of the top frame is    *)
(* the dependency about to be checked.                                     *)

Cur(s) == s[Len(s)].list[s[Len(s)].idx]

RECURSIVE Norm(_)
Norm(s) ==
    IF s = <<>> THEN s
    ELSE LET f == s[Len(s)] IN
         IF f.idx > Len(f.list)
         THEN LET r == SubSeq(s, 1, Len(s) - 1) IN
              IF r = <<>> THEN r ELSE Norm([r EXCEPT ![Len(r)].idx = @ + 1])
         ELSE s

(* Descend into dependency d = Cur(s) whose published list is w.  The real  *)
(* code recurses; around a cycle that does not contain the walker's root    *)
(* the recursion is unbounded until one of the cycle's members notices the  *)
(* cycle and clears its list.  Beyond MaxStk frames the stack is folded    *)
(* back to the first visit of d: the loads that follow are the same.       *)
Push(s, w) ==
    LET d == Cur(s)
        earlier == { k \in 1..(Len(s) - 1) : Cur(SubSeq(s, 1, k)) = d }
        base == IF Len(s) >= MaxStk /\ earlier # {}
                THEN SubSeq(s, 1, CHOOSE k \in earlier : \A j \in earlier : k <= j)
                ELSE s
    IN  Append(base, [list |-> w, idx |-> 1])

AdvanceTop(s) == [s EXCEPT ![Len(s)].idx = @ + 1]

--------------------------------------------------------------------------
\* t.start(): returns the new status map and thread map
StartStatus(d) == IF status[d] = "idle" THEN [status EXCEPT ![d] = "running"] ELSE status
StartThreads(T, d) == IF status[d] = "idle" THEN [T EXCEPT ![d] = [NoThread EXCEPT !.pc = "run.enter"]] ELSE T

\* Broadcast on target l's cond: wake every thread blocked waiting for l
WakeWaiters(T, l) ==
    [t \in Threads |->
        IF T[t].pc = "dep.wait" /\ ( (t = "main" /\ l = cfg.root) \/ (t # "main" /\ cfg.deps[t][T[t].i] = l) )
        THEN [T[t] EXCEPT !.woken = TRUE] ELSE T[t]]

--------------------------------------------------------------------------
\* main goroutine

MainStart ==
    /\ th["main"].pc = "start"
    /\ status' = StartStatus(cfg.root)
    /\ th' = [StartThreads(th, cfg.root) EXCEPT !["main"].pc = "wait"]
    /\ UNCHANGED <<cfg, err, waiting, cap, gq, mon>>

\* wait(): entry from the yield, or re-check after a wake-up
MainWait ==
    /\ th["main"].pc = "wait" \/ (th["main"].pc = "dep.wait" /\ th["main"].woken)
    /\ IF status[cfg.root] = "running"
       THEN /\ th' = [th EXCEPT !["main"].pc = "dep.wait", !["main"].woken = FALSE]
            /\ mon' = mon
       ELSE /\ th' = [th EXCEPT !["main"].pc = "done", !["main"].woken = FALSE]
            /\ mon' = Feed(mon, << [ev |-> "RunReturn", err |-> err[cfg.root]] >>)
    /\ UNCHANGED <<cfg, status, err, waiting, cap, gq>>

--------------------------------------------------------------------------
\* target goroutines

RunEnter(t) ==
    /\ th[t].pc = "run.enter"
    /\ th' = [th EXCEPT ![t].pc = "gate.enter", ![t].ctx = "init"]
    /\ UNCHANGED <<cfg, status, err, waiting, cap, gq, mon>>

\* what follows a successful gate.enter
AfterEnter(t, T) ==
    IF T[t].ctx = "init"
    THEN <<[T EXCEPT ![t].pc = "run.load", ![t].woken = FALSE], <<>>>>
    ELSE <<[T EXCEPT ![t].pc = "h.eval2", ![t].woken = FALSE],
           << [ev |-> "ETReturn", l |-> t,
               results |-> [k \in 1..Len(cfg.deps[t]) |->
                             [err |-> T[t].res[k],
                              tgt |-> IF IsCyc(T[t].res[k]) \/ cfg.deps[t][k] \in Unknown THEN "" ELSE cfg.deps[t][k]]]] >> >>

GateEnter(t) ==
    /\ th[t].pc = "gate.enter" \/ (th[t].pc = "gate.wait" /\ th[t].woken)
    /\ IF cap = 0
       THEN /\ th' = [th EXCEPT ![t].pc = "gate.wait", ![t].woken = FALSE]
            /\ gq' = Append(gq, t)
            /\ UNCHANGED <<cap, mon>>
       ELSE /\ cap' = cap - 1
            /\ th' = AfterEnter(t, th)[1]
            /\ mon' = Feed(mon, AfterEnter(t, th)[2])
            /\ gq' = gq
    /\ UNCHANGED <<cfg, status, err, waiting>>

RunLoad(t) ==
    /\ th[t].pc = "run.load"
    /\ th' = [th EXCEPT ![t].pc = "h.load"]
    /\ mon' = Feed(mon, << [ev |-> "LoadBegin", l |-> t] >>)
    /\ UNCHANGED <<cfg, status, err, waiting, cap, gq>>

HLoad(t) ==
    /\ th[t].pc = "h.load"
    /\ IF t \in Unknown
       THEN /\ th' = [th EXCEPT ![t].pc = "run.finish", ![t].pst = "failed", ![t].per = "unknown:" \o t]
            /\ mon' = Feed(mon, << [ev |-> "LoadEnd", l |-> t, err |-> "unknown:" \o t] >>)
       ELSE /\ th' = [th EXCEPT ![t].pc = "h.eval"]
            /\ mon' = Feed(mon, << [ev |-> "LoadEnd", l |-> t, err |-> ""], [ev |-> "EvalBegin", l |-> t] >>)
    /\ UNCHANGED <<cfg, status, err, waiting, cap, gq>>

HEval(t) ==
    /\ th[t].pc = "h.eval"
    /\ th' = [th EXCEPT ![t].pc = "et.enter"]
    /\ mon' = Feed(mon, << [ev |-> "ETCall", l |-> t, deps |-> cfg.deps[t]] >>)
    /\ UNCHANGED <<cfg, status, err, waiting, cap, gq>>

ETEnter(t) ==
    /\ th[t].pc = "et.enter"
    /\ th' = [th EXCEPT ![t].pc = "gate.exit", ![t].ctx = "et"]
    /\ UNCHANGED <<cfg, status, err, waiting, cap, gq, mon>>

\* gate.exit(): capacity++ and Signal
GateExit(t) ==
    /\ th[t].pc = "gate.exit"
    /\ cap' = cap + 1
    /\ LET next == IF th[t].ctx = "final" THEN [th[t] EXCEPT !.pc = "done"]
                   ELSE IF Len(cfg.deps[t]) > 0 THEN [th[t] EXCEPT !.pc = "start", !.i = 1]
                   ELSE [th[t] EXCEPT !.pc = "et.publish"]
       IN IF gq = <<>>
          THEN /\ th' = [th EXCEPT ![t] = next]
               /\ gq' = gq
          ELSE \E k \in (IF Fifo THEN {1} ELSE 1..Len(gq)) :
               /\ th' = [th EXCEPT ![t] = next, ![gq[k]].woken = TRUE]
               /\ gq' = SubSeq(gq, 1, k - 1) \o SubSeq(gq, k + 1, Len(gq))
    /\ UNCHANGED <<cfg, status, err, waiting, mon>>

StartDep(t) ==
    /\ th[t].pc = "start"
    /\ LET d == cfg.deps[t][th[t].i]
           T1 == StartThreads(th, d)
       IN /\ status' = StartStatus(d)
          /\ th' = IF th[t].i < Len(cfg.deps[t])
                   THEN [T1 EXCEPT ![t].i = @ + 1]
                   ELSE [T1 EXCEPT ![t].pc = "et.publish"]
    /\ UNCHANGED <<cfg, err, waiting, cap, gq, mon>>

ETPublish(t) ==
    /\ th[t].pc = "et.publish"
    /\ waiting' = [waiting EXCEPT ![t] = [set |-> TRUE, list |-> cfg.deps[t]]]
    /\ th' = [th EXCEPT ![t].pc = "et.check"]
    /\ UNCHANGED <<cfg, status, err, cap, gq, mon>>

\* continue the walk from a normalised stack until its next yield
Walk(t, s) ==
    IF s = <<>>
    THEN IF Len(cfg.deps[t]) > 0
         THEN [th[t] EXCEPT !.pc = "wait", !.i = 1, !.stk = <<>>, !.res = [k \in 1..Len(cfg.deps[t]) |-> ""]]
         ELSE [th[t] EXCEPT !.pc = "et.clear", !.stk = <<>>, !.res = <<>>]
    ELSE IF Cur(s) = t
         THEN [th[t] EXCEPT !.pc = "et.clear", !.stk = <<>>,
                            !.res = [k \in 1..Len(cfg.deps[t]) |-> "cyclic:" \o t]]
         ELSE [th[t] EXCEPT !.pc = "check.load", !.stk = s]

ETCheck(t) ==
    /\ th[t].pc = "et.check"
    /\ th' = [th EXCEPT ![t] = Walk(t, Norm(<< [list |-> cfg.deps[t], idx |-> 1] >>))]
    /\ UNCHANGED <<cfg, status, err, waiting, cap, gq, mon>>

CheckLoad(t) ==
    /\ th[t].pc = "check.load"
    /\ LET s == th[t].stk
           w == waiting[Cur(s)]
           s1 == IF w.set THEN Push(s, w.list) ELSE AdvanceTop(s)
       IN th' = [th EXCEPT ![t] = Walk(t, Norm(s1))]
    /\ UNCHANGED <<cfg, status, err, waiting, cap, gq, mon>>

\* t.wait() on dependency i: entry from the yield or re-check after wake-up
WaitDep(t) ==
    /\ th[t].pc = "wait" \/ (th[t].pc = "dep.wait" /\ th[t].woken)
    /\ LET d == cfg.deps[t][th[t].i] IN
       IF status[d] = "running"
       THEN th' = [th EXCEPT ![t].pc = "dep.wait", ![t].woken = FALSE]
       ELSE th' = [th EXCEPT ![t].res[th[t].i] = err[d], ![t].woken = FALSE,
                             ![t].pc = IF th[t].i < Len(cfg.deps[t]) THEN "wait" ELSE "et.clear",
                             ![t].i = IF th[t].i < Len(cfg.deps[t]) THEN @ + 1 ELSE @]
    /\ UNCHANGED <<cfg, status, err, waiting, cap, gq, mon>>

ETClear(t) ==
    /\ th[t].pc = "et.clear"
    /\ waiting' = [waiting EXCEPT ![t] = NilW]
    /\ th' = [th EXCEPT ![t].pc = "gate.enter", ![t].ctx = "reenter"]
    /\ UNCHANGED <<cfg, status, err, cap, gq, mon>>

HEval2(t) ==
    /\ th[t].pc = "h.eval2"
    /\ LET depFailed == \E k \in 1..Len(th[t].res) : th[t].res[k] # ""
           e == IF depFailed THEN "dep:" \o t ELSE IF t \in Failing THEN "body:" \o t ELSE ""
       IN /\ th' = [th EXCEPT ![t].pc = "run.finish", ![t].pst = (IF e = "" THEN "succeeded" ELSE "failed"), ![t].per = e]
          /\ mon' = Feed(mon, << [ev |-> "EvalEnd", l |-> t, err |-> e] >>)
    /\ UNCHANGED <<cfg, status, err, waiting, cap, gq>>

RunFinish(t) ==
    /\ th[t].pc = "run.finish"
    /\ status' = [status EXCEPT ![t] = th[t].pst]
    /\ err' = [err EXCEPT ![t] = th[t].per]
    /\ th' = WakeWaiters([th EXCEPT ![t].pc = "gate.exit", ![t].ctx = "final"], t)
    /\ UNCHANGED <<cfg, waiting, cap, gq, mon>>

--------------------------------------------------------------------------
StepOf(t) ==
    IF t = "main" THEN MainStart \/ MainWait
    ELSE \/ RunEnter(t) \/ GateEnter(t) \/ RunLoad(t) \/ HLoad(t) \/ HEval(t) \/ ETEnter(t)
         \/ GateExit(t) \/ StartDep(t) \/ ETPublish(t) \/ ETCheck(t) \/ CheckLoad(t)
         \/ WaitDep(t) \/ ETClear(t) \/ HEval2(t) \/ RunFinish(t)

\* With Eager, a parked thread is released only when nobody is woken: the
\* controlled scheduler waits for quiescence before every release.
Step(t) ==
    /\ (Eager /\ AnyWoken) => th[t].woken
    /\ StepOf(t)
    /\ hist' = IF th[t].woken THEN hist ELSE Append(hist, t)
    /\ fin' = fin

AllDone == \A t \in Threads : th[t].pc \in {"none", "done"}

\* terminal stuttering step: feeds the Final event to the monitor once
Finish ==
    /\ AllDone
    /\ ~fin
    /\ fin' = TRUE
    /\ mon' = Feed(mon, << [ev |-> "Final", cap |-> cap] >>)
    /\ UNCHANGED <<cfg, status, err, waiting, cap, gq, th, hist>>

Finished == AllDone /\ fin

Next == (\E t \in Threads : Step(t)) \/ Finish \/ (Finished /\ UNCHANGED vars)

Fairness == (\A t \in {"main", "a", "b", "c", "d", "e"} : WF_vars(t \in Threads /\ Step(t))) /\ WF_vars(Finish)

Spec == Init /\ [][Next]_vars /\ Fairness

--------------------------------------------------------------------------
\* Properties checked on D (x) P

NoViolation == mon.viol = {}

TypeOK ==
    /\ cap \in 0..cfg.limit
    /\ \A l \in L : status[l] \in {"idle", "running", "succeeded", "failed"}
    /\ \A i \in DOMAIN gq : th[gq[i]].pc = "gate.wait"

\* slots held = threads between a successful gate.enter and the matching gate.exit
Holders == { t \in L : th[t].pc \in {"run.load", "h.load", "h.eval", "et.enter", "h.eval2", "run.finish"}
                       \/ (th[t].pc = "gate.exit") }
GateConservation == cap + Cardinality(Holders) = cfg.limit

\* a started target has exactly one goroutine
OneGoroutine == \A l \in L : (status[l] = "idle") <=> (th[l].pc = "none")

\* every waiter of a finished target has been woken (no lost wake-up)
NoLostWakeup == \A t \in Threads : th[t].pc = "dep.wait" /\ ~th[t].woken =>
                    LET d == IF t = "main" THEN cfg.root ELSE cfg.deps[t][th[t].i] IN status[d] = "running"

\* somebody waiting at the gate with free capacity has been signalled
NoLostSignal == (cap > 0 /\ gq # <<>>) => \E t \in Threads : th[t].woken \/ th[t].pc = "gate.exit"

Termination == <>Finished

View == <<cfg, status, err, waiting, cap, gq, th, mon.viol, fin,
          mon.loads, mon.evals, mon.ended, mon.active, mon.sawCyc, mon.returned>>
=============================================================================
