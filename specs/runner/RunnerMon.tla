--------------------------- MODULE RunnerMon ---------------------------
(***************************************************************************)
(* Property monitor P for the target runner (properties C04, C05, C09).    *)
(*                                                                         *)
(* The monitor is a pure function  Mon(e, m)  over the events that a       *)
(* harness can observe through the runner's public interfaces (its own     *)
(* Targets/Target implementations and the value returned by Run).  It      *)
(* knows nothing about how the runner is implemented.  m.viol only grows.  *)
(*                                                                         *)
(* Events (records, field ev names the kind):                              *)
(*   LoadBegin{l}  LoadEnd{l,err}  EvalBegin{l}  ETCall{l,deps}            *)
(*   ETReturn{l,results: <<[err,tgt]>>}  EvalEnd{l,err}  RunReturn{err}    *)
(*   Gate{cap}  (white-box, optional, only at quiescent points)           *)
(*   Final{cap} (cap = -1 when the capacity could not be read)            *)
(*   Deadlock{} Hang{}                                                    *)
(* Errors are strings: "" = success, "cyclic:<x>" = a cyclic-dependency   *)
(* error produced by the runner, anything else = an error made by the      *)
(* harness (unknown:<l>, body:<l>, dep:<l>), unique per label and kind.    *)
(***************************************************************************)
EXTENDS Integers, Sequences, FiniteSets, TLC, SequencesExt


IsCyc(e) == Len(e) >= 7 /\ SubSeq(e, 1, 7) = "cyclic:"

\* ---- graph facts computed from the configuration -------------------------
Labels(c) == DOMAIN c.deps
Succ(c, l) == IF l \in ToSet(c.unknown) THEN {} ELSE ToSet(c.deps[l]) \cap Labels(c)

RECURSIVE ReachFrom(_, _, _)
ReachFrom(c, seen, frontier) ==
    IF frontier = {} THEN seen
    ELSE LET nxt == (UNION { Succ(c, l) : l \in frontier }) \ seen
         IN ReachFrom(c, seen \cup nxt, nxt)

\* labels reachable from the root (including it)
Reachable(c) == ReachFrom(c, {c.root}, {c.root})
\* labels reachable from l in one or more steps
ReachPlus(c, l) == ReachFrom(c, Succ(c, l), Succ(c, l))
\* the part of the graph the build visits contains a cycle
Cyclic(c) == \E l \in Reachable(c) : l \in ReachPlus(c, l)

\* ---- monitor ---------------------------------------------------------------
MonInit(c) ==
    [ cfg     |-> c,
      loads   |-> [l \in Labels(c) |-> 0],
      evals   |-> [l \in Labels(c) |-> 0],
      ended   |-> [l \in Labels(c) |-> "-"],     \* "-" | "ok" | error string
      loadOk  |-> {},
      inET    |-> {},
      etdeps  |-> [l \in Labels(c) |-> <<>>],
      active  |-> 0,
      lastCap |-> -1,                            \* free slots at the last quiescent point (-1: not read)
      sawCyc  |-> FALSE,
      returned|-> FALSE,
      n       |-> 0,
      viol    |-> {} ]

LOCAL V(m, prop, what, l) == [m EXCEPT !.viol = @ \cup {[prop |-> prop, what |-> what, l |-> l, at |-> m.n + 1]}]
LOCAL VIf(m, cond, prop, what, l) == IF cond THEN V(m, prop, what, l) ELSE m

LOCAL Outcome(x) == IF x = "ok" THEN "" ELSE x

LOCAL OnLoadBegin(e, m0) ==
    LET m1 == [m0 EXCEPT !.loads[e.l] = @ + 1, !.active = @ + 1]
        m2 == VIf(m1, m1.loads[e.l] > 1, "C04", "loaded more than once", e.l)
    IN  VIf(m2, m2.active > m2.cfg.limit, "C09", "more targets active than the limit", e.l)

LOCAL OnLoadEnd(e, m0) ==
    IF e.err = "" THEN [m0 EXCEPT !.loadOk = @ \cup {e.l}]
    ELSE [m0 EXCEPT !.ended[e.l] = e.err, !.active = @ - 1]

LOCAL OnEvalBegin(e, m0) ==
    LET m1 == [m0 EXCEPT !.evals[e.l] = @ + 1]
    IN  VIf(m1, m1.evals[e.l] > 1, "C04", "evaluated more than once", e.l)

LOCAL OnETCall(e, m0) ==
    [m0 EXCEPT !.inET = @ \cup {e.l}, !.etdeps[e.l] = e.deps, !.active = @ - 1]

LOCAL OnETReturn(e, m0) ==
    LET deps == m0.etdeps[e.l]
        rs   == e.results
        n    == Len(rs)
        anyCyc == \E i \in 1..n : IsCyc(rs[i].err)
        \* an early return with the cyclic-dependency error in every slot is the reported outcome
        \* of a requester that lies on a cycle; anywhere else the results must be the outcomes
        allCyc == /\ n > 0 /\ \A i \in 1..n : IsCyc(rs[i].err) /\ rs[i].err = rs[1].err
                  /\ e.l \in ReachPlus(m0.cfg, e.l)
        faithful(i) ==
            LET d == deps[i] IN
            /\ d \in Labels(m0.cfg)
            /\ m0.ended[d] # "-"
            /\ rs[i].err = Outcome(m0.ended[d])
            /\ rs[i].tgt = (IF d \in m0.loadOk THEN d ELSE "")
        m1 == [m0 EXCEPT !.inET = @ \ {e.l}, !.active = @ + 1,
                         !.sawCyc = @ \/ anyCyc]
        m2 == VIf(m1, n # Len(deps), "C04", "wrong number of results", e.l)
        m3 == IF n # Len(deps) \/ allCyc THEN m2
              ELSE LET bad == { i \in 1..n : ~faithful(i) } IN
                   IF bad = {} THEN m2
                   ELSE LET i == CHOOSE j \in bad : \A k \in bad : j <= k
                            d == deps[i] IN
                        IF d \in Labels(m0.cfg) /\ m0.ended[d] = "-"
                        THEN V(m2, "C04", "continued before a dependency finished", e.l)
                        ELSE V(m2, "C04", "result is not the dependency's outcome", e.l)
        m4 == VIf(m3, anyCyc /\ ~Cyclic(m0.cfg), "C05", "cyclic-dependency error on an acyclic graph", e.l)
    IN  VIf(m4, m4.active > m4.cfg.limit, "C09", "more targets active than the limit", e.l)

LOCAL OnEvalEnd(e, m0) ==
    [m0 EXCEPT !.ended[e.l] = (IF e.err = "" THEN "ok" ELSE e.err), !.active = @ - 1]

LOCAL OnRunReturn(e, m0) ==
    LET r  == m0.cfg.root
        m1 == [m0 EXCEPT !.returned = TRUE]
        m2 == IF m1.ended[r] = "-"
              THEN V(m1, "C04", "build returned before the requested target finished", r)
              ELSE VIf(m1, e.err # Outcome(m1.ended[r]), "C04", "build result is not the requested target's result", r)
        m3 == VIf(m2, Cyclic(m0.cfg) /\ e.err = "", "C05", "cyclic graph built successfully", r)
    IN  VIf(m3, Cyclic(m0.cfg) /\ ~m0.sawCyc, "C05", "cycle not reported as a cyclic-dependency error", r)

\* every goroutine is blocked for good: none of them is executing, so a slot that is not free is
\* held by a target that waits for its dependencies (or was lost) -- the limit-of-one clause of C09
LOCAL OnDeadlock(e, m0) ==
    LET m1 == V(m0, "C05", "deadlock: every goroutine blocked, build not finished", "")
        m2 == VIf(m1, m0.lastCap >= 0 /\ m0.active = 0 /\ m0.lastCap < m0.cfg.limit /\ ~Cyclic(m0.cfg),
            "C09", "every target is waiting yet slots are held: waiting on dependencies holds a slot", "")
    \* a goroutine parked inside the gate although a slot is free: the freed slot never reached it
    IN  VIf(m2, "atgate" \in DOMAIN e /\ e.atgate > 0 /\ m0.lastCap > 0,
            "C09", "a target waits at the gate although a slot is free: the freed slot is lost", "")

\* free-running build that never finished; the harness reports how many goroutines sit in the
\* gate and the free-slot count read from it
LOCAL OnHang(e, m0) ==
    LET m1 == V(m0, "C05", "build hangs", "")
    IN  VIf(m1, "atgate" \in DOMAIN e /\ e.atgate > 0 /\ e.cap > 0,
            "C09", "a target waits at the gate although a slot is free: the freed slot is lost", "")

\* a leaf made e.n gate round trips; e.peak is the largest number of executing targets it saw
\* while holding a slot
\* while holding a slot. Between SpinBegin and Spin the leaf is counted by the harness, not here.
LOCAL OnSpin(e, m0) ==
    LET m1 == [m0 EXCEPT !.active = @ + 1]
        m2 == VIf(m1, e.peak > m0.cfg.limit, "C09", "more targets active than the limit (gate round trips)", e.l)
    IN  VIf(m2, m2.active > m2.cfg.limit, "C09", "more targets active than the limit", e.l)

LOCAL OnGate(e, m00) ==
    LET m0 == [m00 EXCEPT !.lastCap = e.cap]
        m1 == VIf(m0, e.cap < 0, "C09", "slot released more often than acquired (negative free count impossible)", "")
        m2 == VIf(m1, e.cap > m0.cfg.limit, "C09", "more free slots than the limit", "")
    IN  VIf(m2, e.cap >= 0 /\ e.cap + m0.active > m0.cfg.limit, "C09", "free slots plus active targets exceed the limit", "")

LOCAL OnFinal(e, m0) ==
    LET open == { l \in Labels(m0.cfg) : m0.loads[l] > 0 /\ m0.ended[l] = "-" }
        m1 == VIf(m0, ~m0.returned, "C05", "build did not return", m0.cfg.root)
        m2 == VIf(m1, open # {}, "C05", "a started target never finished", "")
    IN  VIf(m2, e.cap # -1 /\ open = {} /\ e.cap # m0.cfg.limit, "C09", "slots not conserved at the end of the build", "")

Mon(e, m0) ==
    LET known == ("l" \notin DOMAIN e) \/ e.l \in Labels(m0.cfg)
        m1 == IF ~known THEN V(m0, "C04", "event for a label outside the graph", e.l)
              ELSE CASE e.ev = "LoadBegin" -> OnLoadBegin(e, m0)
                     [] e.ev = "LoadEnd"   -> OnLoadEnd(e, m0)
                     [] e.ev = "EvalBegin" -> OnEvalBegin(e, m0)
                     [] e.ev = "ETCall"    -> OnETCall(e, m0)
                     [] e.ev = "ETReturn"  -> OnETReturn(e, m0)
                     [] e.ev = "EvalEnd"   -> OnEvalEnd(e, m0)
                     [] e.ev = "RunReturn" -> OnRunReturn(e, m0)
                     [] e.ev = "Gate"      -> OnGate(e, m0)
                     [] e.ev = "Final"     -> OnFinal(e, m0)
                     [] e.ev = "Deadlock"  -> OnDeadlock(e, m0)
                     [] e.ev = "Hang"      -> OnHang(e, m0)
                     [] e.ev = "SpinBegin" -> [m0 EXCEPT !.active = @ - 1]
                     [] e.ev = "Spin"      -> OnSpin(e, m0)
                     [] OTHER              -> m0
    IN  [m1 EXCEPT !.n = @ + 1]

\* fold the monitor over a whole trace
RunMon(c, es) == FoldLeft(LAMBDA m, e : Mon(e, m), MonInit(c), es)
=============================================================================
