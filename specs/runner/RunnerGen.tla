----------------------------- MODULE RunnerGen -----------------------------
(***************************************************************************)
(* Behaviour generator: prints the schedule (sequence of released threads) *)
(* of every complete behaviour of D in controlled-scheduler mode, for the  *)
(* harness to replay on the real runner.  Used exhaustively on the         *)
(* smallest graphs and with -simulate on larger ones.                      *)
(***************************************************************************)
EXTENDS Runner, Json

GenFinish == Finish /\ PrintT(<<"HIST", ToJson([cfg |-> cfg, h |-> hist])>>)
GenNext == (\E t \in Threads : Step(t)) \/ GenFinish
GenSpec == Init /\ [][GenNext]_vars
=============================================================================
