--------------------------- MODULE RunnerTraceD ---------------------------
(***************************************************************************)
(* Trace validation of the real runner against the design spec D           *)
(* (Runner.tla in Eager/Fifo mode = the controlled scheduler).             *)
(*                                                                         *)
(* trace.ndjson: one line per controlled execution                         *)
(*   {id, cfg, steps: [ {ev:"Step", th, point, obj}                        *)
(*                    | {ev:"Proj", proj:{cap, status:{l:int}, waiting:{l:[..]}}} ]}*)
(* A Step line is the release of thread th parked at yield `point` (acting *)
(* on object obj); it must be the D action of that thread at that pc.      *)
(* Wake-ups that the release causes are silent D steps (Settle).  A Proj   *)
(* line is the white-box projection of the real state at a quiescent       *)
(* point and must equal D's state.  A line D cannot follow is recorded as  *)
(* drift (with its position) and the next trace is started; the spec is    *)
(* total, so one run validates a whole batch.                              *)
(***************************************************************************)
EXTENDS Runner, Json

Trace == ndJsonDeserialize("trace.ndjson")

VARIABLES ln, k, drift
tvars == <<ln, k, drift>>

Steps == Trace[ln].steps

StatusName(n) == CASE n = 0 -> "idle" [] n = 1 -> "running" [] n = 2 -> "succeeded" [] n = 3 -> "failed" [] OTHER -> "?"

ObjOf(t) ==
    LET pc == th[t].pc IN
    IF t = "main" THEN cfg.root
    ELSE IF pc \in {"start", "wait"} THEN cfg.deps[t][th[t].i]
    ELSE IF pc = "check.load" THEN Cur(th[t].stk)
    ELSE IF pc \in {"gate.enter", "gate.exit"} THEN ""
    ELSE t

ProjMatches(p) ==
    /\ p.cap = cap
    /\ \A l \in L : status[l] = (IF l \in DOMAIN p.status THEN StatusName(p.status[l]) ELSE "idle")
    /\ \A l \in L : IF l \in DOMAIN p.waiting THEN waiting[l].set /\ waiting[l].list = p.waiting[l]
                    ELSE ~waiting[l].set

Woken == { t \in Threads : th[t].woken }

TStep ==
    /\ ln <= Len(Trace) /\ k <= Len(Steps) /\ Steps[k].ev = "Step" /\ Woken = {}
    /\ LET t == Steps[k].th IN
       /\ t \in Threads
       /\ th[t].pc = Steps[k].point
       /\ ObjOf(t) = Steps[k].obj
       /\ Step(t)
    /\ k' = k + 1 /\ UNCHANGED <<ln, drift>>

TSettle ==
    /\ Woken # {}
    /\ LET t == CHOOSE x \in Woken : TRUE IN Step(t)
    /\ UNCHANGED tvars

TProj ==
    /\ ln <= Len(Trace) /\ k <= Len(Steps) /\ Steps[k].ev = "Proj" /\ Woken = {}
    /\ ProjMatches(Steps[k].proj)
    /\ k' = k + 1 /\ UNCHANGED <<ln, drift>> /\ UNCHANGED vars

Restart(n) ==
    IF n <= Len(Trace)
    THEN LET s == InitState(Trace[n].cfg) IN
         /\ cfg' = s.cfg /\ status' = s.status /\ err' = s.err /\ waiting' = s.waiting
         /\ cap' = s.cap /\ gq' = s.gq /\ th' = s.th /\ mon' = s.mon /\ hist' = <<>> /\ fin' = FALSE
    ELSE UNCHANGED vars

\* the current trace was followed to its end
TNextTrace ==
    /\ ln <= Len(Trace) /\ k > Len(Steps) /\ Woken = {}
    /\ ln' = ln + 1 /\ k' = 1 /\ drift' = drift
    /\ Restart(ln + 1)

\* D cannot follow the next line: record drift, go on with the next trace
TDrift ==
    /\ ln <= Len(Trace) /\ k <= Len(Steps) /\ Woken = {}
    /\ ~ENABLED TStep /\ ~ENABLED TProj
    /\ drift' = drift \cup {[id |-> Trace[ln].id, at |-> k, line |-> Steps[k]]}
    /\ PrintT(<<"DRIFT", ToJson([id |-> Trace[ln].id, at |-> k, line |-> Steps[k]])>>)
    /\ ln' = ln + 1 /\ k' = 1
    /\ Restart(ln + 1)

TInit ==
    /\ ln = 1 /\ k = 1 /\ drift = {}
    /\ LET s == InitState(Trace[1].cfg) IN
        /\ cfg = s.cfg /\ status = s.status /\ err = s.err /\ waiting = s.waiting
        /\ cap = s.cap /\ gq = s.gq /\ th = s.th /\ mon = s.mon /\ hist = <<>> /\ fin = FALSE

TNext == TStep \/ TSettle \/ TProj \/ TNextTrace \/ TDrift

TSpec == TInit /\ [][TNext]_<<vars, tvars>>

Done == (ln = Len(Trace) + 1) => PrintT(<<"DONE", Len(Trace), Cardinality(drift)>>)
\* D's own invariants are evaluated on every state reached through a real trace
DInvariants == TypeOK /\ GateConservation /\ OneGoroutine /\ NoLostWakeup
=============================================================================
