SPECIFICATION GenSpec
CONSTANTS
  Cfgs <- GenCfgs
  Eager = TRUE
  Fifo = TRUE
  MaxStk = 100000
INVARIANTS NoViolation
CHECK_DEADLOCK FALSE
