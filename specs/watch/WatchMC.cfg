SPECIFICATION Spec
CONSTANTS
  MaxEdits = 3
  MaxSelfWrites = 2
  Handoff = "clear"
INVARIANTS TypeOK NoLostUpdate NoSpuriousBuild
PROPERTY Settles
CHECK_DEADLOCK FALSE
