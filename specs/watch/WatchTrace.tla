----------------------------- MODULE WatchTrace -----------------------------
(***************************************************************************)
(* Trace validation for Watch.tla: the events of a real Project.Watch run  *)
(* (harness edits, the verif hooks watch.dirty / watch.handoff, the load   *)
(* and run events) are replayed as the actions Edit, Deliver, Tick         *)
(* (hand-off), ReloadOk / ReloadFail and RunDone.  The notifier's queue is *)
(* not observable (one edit may produce several events, or share one), so  *)
(* `queued` is not tracked; everything else is deterministic and the       *)
(* replay is a fold.  A step whose action is not enabled is reported as    *)
(* drift, and so is a settled state that violates NoLostUpdate.            *)
(***************************************************************************)
EXTENDS Integers, Sequences, FiniteSets, TLC, SequencesExt, Json

Trace == ndJsonDeserialize("trace.ndjson")

S0 == [tree |-> 0, dirty |-> FALSE, builder |-> "idle", seen |-> 0, on |-> FALSE, n |-> 0, drift |-> {}]
LOCAL D(s, what) == [s EXCEPT !.drift = @ \cup {[at |-> s.n + 1, what |-> what]}]

Step(s0, e) ==
    LET s == [s0 EXCEPT !.n = @ + 1] IN
    IF e.ev = "WatchBegin" THEN [S0 EXCEPT !.on = TRUE, !.n = s.n, !.drift = s.drift]
    ELSE IF ~s.on THEN s
    ELSE CASE e.ev = "Edit" -> [s EXCEPT !.tree = @ + 1]
           [] e.ev = "Watch" /\ e.wp = "watch.dirty" -> [s EXCEPT !.dirty = TRUE]
           [] e.ev = "Watch" /\ e.wp = "watch.handoff" ->
                  LET t == IF s.dirty /\ s.builder = "idle" THEN s ELSE D(s0, "hand-off although nothing was dirty or a build was running") IN
                  [t EXCEPT !.n = s.n, !.dirty = FALSE, !.builder = "reload", !.seen = s.tree]
           [] e.ev = "BuildBegin" ->
                  LET t == IF s.builder = "reload" THEN s ELSE D(s0, "a build began without a hand-off") IN
                  [t EXCEPT !.n = s.n, !.builder = "run"]
           [] e.ev = "Load" /\ ~e.ok ->
                  LET t == IF s.builder = "reload" THEN s ELSE D(s0, "a reload failed without a hand-off") IN
                  [t EXCEPT !.n = s.n, !.builder = "idle"]
           [] e.ev = "BuildEnd" ->
                  LET t == IF s.builder = "run" THEN s ELSE D(s0, "a build ended that had not begun") IN
                  [t EXCEPT !.n = s.n, !.builder = "idle"]
           [] e.ev = "Quiesce" ->
                  IF s.dirty \/ s.builder # "idle" THEN D(s0, "settled while dirty or building")
                  ELSE IF s.seen # s.tree THEN D(s0, "lost update: the last build was handed off before the last edit")
                  ELSE s
           [] OTHER -> s

Run(es) == FoldLeft(Step, S0, es)

VARIABLES i, ndrift
Init == i = 1 /\ ndrift = 0
Next == /\ i <= Len(Trace)
        /\ LET r == Run(Trace[i].events) IN
           /\ IF r.drift = {} THEN TRUE ELSE PrintT(<<"DRIFT", ToJson([id |-> Trace[i].id, drift |-> r.drift])>>)
           /\ ndrift' = ndrift + Cardinality(r.drift)
        /\ i' = i + 1
Spec == Init /\ [][Next]_<<i, ndrift>>
Done == (i = Len(Trace) + 1) => PrintT(<<"DONE", Len(Trace), ndrift>>)
=============================================================================
