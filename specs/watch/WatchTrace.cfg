SPECIFICATION Spec
INVARIANT Done
CHECK_DEADLOCK FALSE
