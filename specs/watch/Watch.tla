------------------------------- MODULE Watch -------------------------------
(***************************************************************************)
(* Design spec of dawn's watch mode (project.go, Project.Watch): a file    *)
(* notifier fills a queue of events, a debouncer goroutine turns events    *)
(* into a dirty flag and, on every tick of a 500 ms ticker, offers a build *)
(* to the builder goroutine over an unbuffered channel; the builder        *)
(* reloads the project and runs the target.                                *)
(*                                                                         *)
(*   tree      version of the project tree (one per edit)                  *)
(*   queued    events produced by the notifier and not yet consumed        *)
(*   dirty     the debouncer's flag                                        *)
(*   builder   "idle" (blocked in `for range builds`) | "reload" | "run"   *)
(*   seen      tree version a build is guaranteed to reflect (the version  *)
(*             at the hand-off: Reload and the source hashes come later)   *)
(*   built     seen of the last completed build                            *)
(*   writes    how often a build may still write into the tree itself      *)
(*             (outputs and generated files inside the project)            *)
(*                                                                         *)
(* Handoff = "clear": the code as it is -- dirty is cleared only when the  *)
(* builder took the offer.  Handoff = "always" is the tempting             *)
(* simplification (dirty = false after every tick) that loses an edit made *)
(* while a build is running.                                               *)
(***************************************************************************)
EXTENDS Integers, Sequences, FiniteSets, TLC

CONSTANTS MaxEdits, MaxSelfWrites, Handoff

VARIABLES tree, queued, dirty, builder, seen, built, writes, builds

vars == <<tree, queued, dirty, builder, seen, built, writes, builds>>

Init == /\ tree = 0 /\ queued = 0 /\ dirty = FALSE /\ builder = "idle"
        /\ seen = 0 /\ built = 0 /\ writes = MaxSelfWrites /\ builds = 0

\* somebody edits a file of the project: the notifier queues an event
Edit == /\ tree < MaxEdits
        /\ tree' = tree + 1 /\ queued' = queued + 1
        /\ UNCHANGED <<dirty, builder, seen, built, writes, builds>>

\* the debouncer consumes one event (case event := <-events)
Deliver == /\ queued > 0
           /\ queued' = queued - 1 /\ dirty' = TRUE
           /\ UNCHANGED <<tree, builder, seen, built, writes, builds>>

\* the ticker fires (case <-rate.C)
Tick == /\ dirty
        /\ IF builder = "idle"
           THEN /\ builder' = "reload" /\ seen' = tree /\ dirty' = FALSE /\ builds' = builds + 1
           ELSE /\ dirty' = (Handoff # "always") /\ UNCHANGED <<builder, seen, builds>>
        /\ UNCHANGED <<tree, queued, built, writes>>

\* Reload finished (a failed reload goes back to waiting without running)
ReloadOk   == builder = "reload" /\ builder' = "run" /\ UNCHANGED <<tree, queued, dirty, seen, built, writes, builds>>
ReloadFail == builder = "reload" /\ builder' = "idle" /\ UNCHANGED <<tree, queued, dirty, seen, built, writes, builds>>

\* a running build writes a file inside the tree: that is an event like any other, but not an edit
SelfWrite == /\ builder = "run" /\ writes > 0
             /\ writes' = writes - 1 /\ queued' = queued + 1
             /\ UNCHANGED <<tree, dirty, builder, seen, built, builds>>

RunDone == /\ builder = "run"
           /\ builder' = "idle" /\ built' = seen
           /\ UNCHANGED <<tree, queued, dirty, seen, writes, builds>>

Next == Edit \/ Deliver \/ Tick \/ ReloadOk \/ ReloadFail \/ SelfWrite \/ RunDone

Spec == Init /\ [][Next]_vars /\ WF_vars(Deliver) /\ WF_vars(Tick) /\ WF_vars(ReloadOk) /\ WF_vars(RunDone)

TypeOK == /\ tree \in 0..MaxEdits /\ queued \in 0..(MaxEdits + MaxSelfWrites) /\ dirty \in BOOLEAN
          /\ builder \in {"idle", "reload", "run"} /\ seen \in 0..MaxEdits /\ built \in 0..MaxEdits

Quiet == queued = 0 /\ ~dirty /\ builder = "idle"
\* no lost update: when nothing is pending any more, the last build that was started began after
\* the last edit (a failed reload is reported by the load events and waits for the next edit)
NoLostUpdate == Quiet => seen = tree
\* a build is only ever started because an event arrived since the previous one started
NoSpuriousBuild == builds <= tree + MaxSelfWrites
\* it settles: finitely many edits and self-writes lead to a quiet state
Settles == <>[]Quiet
=============================================================================
