SPECIFICATION Spec
CONSTANTS
  N = 2
  K = 2
  L = 3
  Mode = "heaps"
  Repush = FALSE
  HostCycles = "none"
INVARIANT GenInv
CHECK_DEADLOCK FALSE
