------------------------------ MODULE PickleMC ------------------------------
(***************************************************************************)
(* Exhaustive small-scope checks of the codec model:                       *)
(*  - RoundTrip: for every heap with N nodes and at most K kids per node   *)
(*    (every type, every aliasing pattern incl. self-reference, batch = 2  *)
(*    so that batch boundaries fall inside 3-element containers),          *)
(*    decode(encode(h)) is isomorphic to h;                                *)
(*  - Total: for every op string of length <= L over the op alphabet the   *)
(*    decoder halts with a value or an error (it is a function, so this is *)
(*    evaluated, not assumed) and an accepted result is canonicalisable.   *)
(***************************************************************************)
EXTENDS Pickle

CONSTANTS N, K, L, Mode

\* the larger scopes use fewer atoms (the structure, not the atom, is what they vary)
Atoms == IF N * K >= 9 THEN { Atom("int", "7") }
         ELSE IF N * K >= 6 THEN { Atom("int", "7"), Atom("str", "abcd") }
         \* the smallest scope also has two atoms of different types with the same text
         ELSE { Atom("none", ""), Atom("bool", "True"), Atom("int", "7"), Atom("bytes", "abcd"), Atom("str", "abcd") }
NodeIds == 1..N
Items == Atoms \cup { Ref(i) : i \in NodeIds }
Types == {"list", "dict", "set", "tuple", "host"}
KidSeqs == UNION { [1..k -> Items] : k \in 0..K }

NodeOf(t, kids) == IF t = "host" THEN [t |-> t, kids |-> kids, mod |-> "m", name |-> "n"] ELSE [t |-> t, kids |-> kids]

\* immutable nodes reachable through immutable nodes only must not form a cycle
RECURSIVE ImmReach(_, _, _)
ImmReach(nodes, seen, fr) ==
    IF fr = {} THEN seen
    ELSE LET nx == { x.id : x \in UNION { { nodes[i].kids[j] : j \in DOMAIN nodes[i].kids } : i \in fr } \cap { Ref(i) : i \in NodeIds } }
             imm == { i \in nx : ~Mutable(nodes[i]) } \ seen
         IN ImmReach(nodes, seen \cup imm, imm)
ImmCyclic(nodes) == \E i \in NodeIds : ~Mutable(nodes[i]) /\
                       i \in ImmReach(nodes, {}, {i})

RECURSIVE HashableItem(_, _, _)
HashableItem(nodes, x, d) ==
    IF ~IsRef(x) THEN TRUE
    ELSE IF d = 0 THEN FALSE
    ELSE LET n == nodes[x.id] IN
         ~Mutable(n) /\ \A j \in DOMAIN n.kids : HashableItem(nodes, n.kids[j], d - 1)

\* the value of a hashable item (atoms, tuples and host objects over hashable items): two keys
\* of a dict or elements of a set must differ as values, not merely as nodes
RECURSIVE ValOf(_, _, _)
ValOf(nodes, x, d) ==
    IF ~IsRef(x) \/ d = 0 THEN <<"atom", x>>
    ELSE LET n == nodes[x.id] IN <<n.t, [j \in DOMAIN n.kids |-> ValOf(nodes, n.kids[j], d - 1)]>>

ValidNode(nodes, i) ==
    LET n == nodes[i] IN
    CASE n.t = "dict" -> /\ Len(n.kids) % 2 = 0
                         /\ \A j \in DOMAIN n.kids : j % 2 = 1 => HashableItem(nodes, n.kids[j], N + 1)
                         /\ \A j, k \in DOMAIN n.kids : (j % 2 = 1 /\ k % 2 = 1 /\ j # k) => ValOf(nodes, n.kids[j], N + 1) # ValOf(nodes, n.kids[k], N + 1)
      [] n.t = "set"  -> /\ \A j \in DOMAIN n.kids : HashableItem(nodes, n.kids[j], N + 1)
                         /\ \A j, k \in DOMAIN n.kids : j # k => ValOf(nodes, n.kids[j], N + 1) # ValOf(nodes, n.kids[k], N + 1)
      [] OTHER -> TRUE

VARIABLE x

HeapInit ==
    \E ts \in [NodeIds -> Types] : \E ks \in [NodeIds -> KidSeqs] :
        LET nodes == [i \in NodeIds |-> NodeOf(ts[i], ks[i])] IN
        /\ \A i \in NodeIds : ValidNode(nodes, i)
        /\ ~ImmCyclic(nodes)
        /\ x = [root |-> Ref(1), nodes |-> nodes]

RoundTrip == LET r == VMRun(Enc(x, 2)) IN r.ok /\ CanonOfVM(r) = CanonOfHeap(x)

\* reference graphs: every node is a host object (function, function code) or a container, and
\* host objects may refer to themselves or to one another through their arguments
RefInit ==
    \E ts \in [NodeIds -> {"host", "list", "dict"}] : \E ks \in [NodeIds -> KidSeqs] :
        LET nodes == [i \in NodeIds |-> NodeOf(ts[i], ks[i])] IN
        /\ ts[1] = "host"
        /\ \A i \in NodeIds : ts[i] = "dict" => (Len(ks[i]) % 2 = 0 /\ \A j \in DOMAIN ks[i] : j % 2 = 1 => ~IsRef(ks[i][j]))
        /\ x = [root |-> Ref(1), nodes |-> nodes]
\* the fingerprint of every such graph can be computed: the encoder terminates and its output
\* is a well-formed pickle
Fingerprintable == EncTerminates(x, 2) /\ VMRun(Enc(x, 2)).ok

\* op strings
OpAlphabet == { [op |-> "MARK"], [op |-> "STOP"], [op |-> "MEMOIZE"], [op |-> "BINGET", i |-> 0], [op |-> "BINGET", i |-> 1],
                [op |-> "NONE"], [op |-> "INT", v |-> "7"], [op |-> "STR", v |-> "a"],
                [op |-> "EMPTY_LIST"], [op |-> "APPEND"], [op |-> "APPENDS"], [op |-> "EMPTY_TUPLE"], [op |-> "TUPLE1"],
                [op |-> "TUPLE2"], [op |-> "TUPLE"], [op |-> "EMPTY_DICT"], [op |-> "SETITEMS"], [op |-> "EMPTY_SET"],
                [op |-> "ADDITEMS"], [op |-> "STACK_GLOBAL"], [op |-> "NEWOBJ"], [op |-> "BAD"] }

OpsInit == \E k \in 0..L : x \in [1..k -> OpAlphabet]

Total == LET r == VMRun(x) IN r.halted /\ (r.ok => CanonOfVM(r) = CanonOfVM(r)) /\ (~r.ok => r.err # "")

Init == IF Mode = "heaps" THEN HeapInit ELSE IF Mode = "refs" THEN RefInit ELSE OpsInit
Next == UNCHANGED x
Spec == Init /\ [][Next]_x
Inv == IF Mode = "heaps" THEN RoundTrip ELSE IF Mode = "refs" THEN Fingerprintable ELSE Total
=============================================================================
