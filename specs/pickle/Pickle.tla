------------------------------- MODULE Pickle -------------------------------
(***************************************************************************)
(* Reference model of dawn's pickle codec (pickle/encode.go, decode.go).   *)
(*                                                                         *)
(* Values are heaps: a graph of nodes so that sharing and cycles are       *)
(* first-class.  A heap value is [root, nodes] where nodes[i] =            *)
(*   [t: "list"|"dict"|"set"|"tuple"|"host", kids: sequence of items,      *)
(*    mod, name (host only)]                                               *)
(* and an item is an atom [t: "none"|"bool"|"int"|"float"|"str"|"bytes",   *)
(* v: text] or a node reference [t: "node", id].  Dict kids are the        *)
(* flattened key/value pairs.                                              *)
(*                                                                         *)
(* Ops are the decoded opcodes of a pickle stream (the harness parses the  *)
(* real byte stream into this form): records with field op and, where      *)
(* applicable, v (integer text / string / float text), i (memo index).    *)
(*                                                                         *)
(*   Enc(h, batch)  the encoder as a function from heaps to op sequences   *)
(*                  (memoize-before-contents for list/dict/set, tuples     *)
(*                  not memoized, host objects memoized after their        *)
(*                  arguments, containers filled in batches)               *)
(*   VMRun(ops)     the decoder: a stack machine with a memo; total: every *)
(*                  op sequence ends in [ok |-> TRUE, ...] or an error     *)
(*   Canon          canonical first-visit numbering, so that isomorphism   *)
(*                  of heaps is equality                                   *)
(***************************************************************************)
EXTENDS Integers, Sequences, FiniteSets, TLC, SequencesExt

\* Repush = TRUE models the encoder as found: the container is pushed again (BINGET)
\* between two batches; FALSE models the repaired encoder.
\* HostCycles: what the encoder does when a host object is reached again while its own
\* arguments are still being pickled (a function that refers to itself through its globals):
\* "diverge" models the encoder as found (unbounded recursion), "standin" the repaired
\* pickler, which emits a stand-in for the object under construction; "none" is a pickler
\* without such bookkeeping on values whose host objects are not cyclic through immutable
\* values only (the generic codec scopes).
CONSTANTS Repush, HostCycles

Atom(t, v) == [t |-> t, v |-> v]
Ref(i) == [t |-> "node", id |-> i]
IsRef(x) == x.t = "node"
Mutable(n) == n.t \in {"list", "dict", "set"}

--------------------------------------------------------------------------
\* ENCODER

OpOfAtom(a) ==
    CASE a.t = "none"  -> [op |-> "NONE"]
      [] a.t = "bool"  -> [op |-> IF a.v = "True" THEN "TRUE" ELSE "FALSE"]
      [] a.t = "int"   -> [op |-> "INT", v |-> a.v]
      [] a.t = "float" -> [op |-> "FLOAT", v |-> a.v]
      [] a.t = "str"   -> [op |-> "STR", v |-> a.v]
      [] a.t = "bytes" -> [op |-> "BYTES", v |-> a.v]

\* encoder state: [ops, memo: node id -> memo index, n: memo size]
RECURSIVE EncItem(_, _, _, _), EncNode(_, _, _, _), EncItems(_, _, _, _), EncBatches(_, _, _, _, _, _, _)

EncItems(h, items, st, batch) ==
    IF items = <<>> THEN st ELSE EncItems(h, Tail(items), EncItem(h, Head(items), st, batch), batch)

\* fill container id with items in batches of `batch`, closing each batch with closeOp
EncBatches(h, id, items, st, batch, closeOp, first) ==
    IF items = <<>> THEN st
    ELSE LET k == IF Len(items) > batch THEN batch ELSE Len(items)
             st1 == IF ~first /\ Repush THEN [st EXCEPT !.ops = Append(@, [op |-> "BINGET", i |-> st.memo[id]])] ELSE st
             st2 == [st1 EXCEPT !.ops = Append(@, [op |-> "MARK"])]
             st3 == EncItems(h, SubSeq(items, 1, k), st2, batch)
             st4 == [st3 EXCEPT !.ops = Append(@, [op |-> closeOp])]
         IN EncBatches(h, id, SubSeq(items, k + 1, Len(items)), st4, batch, closeOp, FALSE)

EncNode(h, id, st, batch) ==
    LET n == h.nodes[id] IN
    CASE n.t = "tuple" ->
            LET k == Len(n.kids) IN
            IF k = 0 THEN [st EXCEPT !.ops = Append(@, [op |-> "EMPTY_TUPLE"])]
            ELSE IF k <= 3
                 THEN LET s1 == EncItems(h, n.kids, st, batch) IN
                      [s1 EXCEPT !.ops = Append(@, [op |-> IF k = 1 THEN "TUPLE1" ELSE IF k = 2 THEN "TUPLE2" ELSE "TUPLE3"])]
                 ELSE LET s1 == EncItems(h, n.kids, [st EXCEPT !.ops = Append(@, [op |-> "MARK"])], batch) IN
                      [s1 EXCEPT !.ops = Append(@, [op |-> "TUPLE"])]
      [] n.t = "host" ->
            LET s0 == [st EXCEPT !.ops = @ \o << [op |-> "STR", v |-> n.mod], [op |-> "STR", v |-> n.name], [op |-> "STACK_GLOBAL"] >>]
                \* the arguments are a tuple
                k == Len(n.kids)
                s1 == IF k = 0 THEN [s0 EXCEPT !.ops = Append(@, [op |-> "EMPTY_TUPLE"])]
                      ELSE IF k <= 3 THEN LET x == EncItems(h, n.kids, s0, batch) IN
                                          [x EXCEPT !.ops = Append(@, [op |-> IF k = 1 THEN "TUPLE1" ELSE IF k = 2 THEN "TUPLE2" ELSE "TUPLE3"])]
                      ELSE LET x == EncItems(h, n.kids, [s0 EXCEPT !.ops = Append(@, [op |-> "MARK"])], batch) IN
                           [x EXCEPT !.ops = Append(@, [op |-> "TUPLE"])]
            IN \* memoized after its arguments - unless they led back to it and it is memoized already
               IF id \in DOMAIN s1.memo THEN [s1 EXCEPT !.ops = Append(@, [op |-> "NEWOBJ"])]
               ELSE [s1 EXCEPT !.ops = @ \o << [op |-> "NEWOBJ"], [op |-> "MEMOIZE"] >>,
                               !.memo = [j \in DOMAIN s1.memo \cup {id} |-> IF j = id THEN s1.n ELSE s1.memo[j]],
                               !.n = @ + 1]
      [] OTHER ->  \* list, dict, set: memoized before their contents
            LET empty == IF n.t = "list" THEN "EMPTY_LIST" ELSE IF n.t = "dict" THEN "EMPTY_DICT" ELSE "EMPTY_SET"
                close == IF n.t = "list" THEN "APPENDS" ELSE IF n.t = "dict" THEN "SETITEMS" ELSE "ADDITEMS"
                s0 == [st EXCEPT !.ops = @ \o << [op |-> empty], [op |-> "MEMOIZE"] >>,
                                 !.memo = [j \in DOMAIN st.memo \cup {id} |-> IF j = id THEN st.n ELSE st.memo[j]],
                                 !.n = @ + 1]
            IN IF n.t = "list" /\ Len(n.kids) = 1
               THEN LET s1 == EncItem(h, n.kids[1], s0, batch) IN [s1 EXCEPT !.ops = Append(@, [op |-> "APPEND"])]
               ELSE EncBatches(h, id, n.kids, s0, IF n.t = "dict" THEN 2 * batch ELSE batch, close, TRUE)

EncItem(h, x, st, batch) ==
    IF st.div THEN st
    ELSE IF ~IsRef(x) THEN [st EXCEPT !.ops = Append(@, OpOfAtom(x))]
    ELSE IF x.id \in DOMAIN st.memo THEN [st EXCEPT !.ops = Append(@, [op |-> "BINGET", i |-> st.memo[x.id]])]
    ELSE IF HostCycles # "none" /\ h.nodes[x.id].t = "host" /\ x.id \in st.active
         THEN IF HostCycles = "standin"
              THEN [st EXCEPT !.ops = @ \o << [op |-> "STR", v |-> "dawn"], [op |-> "STR", v |-> "Recursive"], [op |-> "STACK_GLOBAL"],
                                               [op |-> "STR", v |-> h.nodes[x.id].name], [op |-> "TUPLE1"], [op |-> "NEWOBJ"] >>]
              ELSE [st EXCEPT !.div = TRUE]
    ELSE IF h.nodes[x.id].t = "host"
         THEN LET r == EncNode(h, x.id, [st EXCEPT !.active = @ \cup {x.id}], batch) IN [r EXCEPT !.active = @ \ {x.id}]
    ELSE EncNode(h, x.id, st, batch)

EncState(h, batch) == EncItem(h, h.root, [ops |-> <<>>, memo |-> [j \in {} |-> 0], n |-> 0, active |-> {}, div |-> FALSE], batch)
Enc(h, batch) == Append(EncState(h, batch).ops, [op |-> "STOP"])
\* the encoder terminates on h (it does not recurse without bound)
EncTerminates(h, batch) == ~EncState(h, batch).div

--------------------------------------------------------------------------
\* DECODER (virtual machine)

Mark == [t |-> "mark"]
\* VM values: atoms, [t:"tuple", items], [t:"ptr", id] (list/dict/set on the VM heap), Mark,
\* [t:"global", mod, name], [t:"obj", mod, name, args] (result of NEWOBJ with a generic unpickler)

VMInit == [stack |-> <<>>, memo |-> <<>>, heap |-> <<>>, halted |-> FALSE, ok |-> FALSE, err |-> "", val |-> Mark]

Fail(s, e) == [s EXCEPT !.halted = TRUE, !.ok = FALSE, !.err = e]
Push(s, v) == [s EXCEPT !.stack = Append(@, v)]
Top(s) == s.stack[Len(s.stack)]
PopN(s, k) == [s EXCEPT !.stack = SubSeq(@, 1, Len(@) - k)]

\* index of the topmost mark at position > 0 as the decoder scans (0 = none)
RECURSIVE MarkPos(_, _)
MarkPos(stk, i) == IF i <= 0 THEN 0 ELSE IF stk[i] = Mark THEN i ELSE MarkPos(stk, i - 1)

RECURSIVE Hashable(_)
Hashable(v) == CASE v.t = "ptr" -> FALSE
                 [] v.t = "tuple" -> \A i \in DOMAIN v.items : Hashable(v.items[i])
                 [] v.t = "obj" -> Hashable(v.args)
                 [] OTHER -> TRUE

\* dict.SetKey / set.Insert on a sequence of entries
SetKey(items, k, v) ==
    IF ~Hashable(k) THEN items
    ELSE IF \E i \in DOMAIN items : items[i][1] = k
         THEN [i \in DOMAIN items |-> IF items[i][1] = k THEN <<k, v>> ELSE items[i]]
         ELSE Append(items, <<k, v>>)
Insert(items, v) == IF ~Hashable(v) \/ \E i \in DOMAIN items : items[i] = v THEN items ELSE Append(items, v)

RECURSIVE SetKeys(_, _, _), Inserts(_, _, _)
SetKeys(items, vs, j) == IF j > Len(vs) THEN items ELSE SetKeys(SetKey(items, vs[j], vs[j + 1]), vs, j + 2)
Inserts(items, vs, j) == IF j > Len(vs) THEN items ELSE Inserts(Insert(items, vs[j]), vs, j + 1)

NewObj(s, t) == LET id == Len(s.heap) + 1 IN
                [s EXCEPT !.heap = Append(@, [t |-> t, items |-> <<>>]), !.stack = Append(@, [t |-> "ptr", id |-> id])]

\* topmost-slice operations (APPENDS / SETITEMS / ADDITEMS share the decoder's scan)
Slice(s, kind) ==
    IF s.stack = <<>> THEN Fail(s, "stack underflow")
    ELSE LET m == MarkPos(s.stack, Len(s.stack)) IN
         \* the decoder's loop stops at i = 0 (index of the first element): a mark in the
         \* bottom slot, or no mark at all, is an underflow
         IF m <= 1 THEN Fail(s, "stack underflow")
         ELSE LET c == s.stack[m - 1]
                  vs == SubSeq(s.stack, m + 1, Len(s.stack)) IN
              IF c.t # "ptr" \/ s.heap[c.id].t # kind THEN Fail(s, "expects a " \o kind)
              ELSE IF kind = "dict" /\ Len(vs) % 2 # 0 THEN Fail(s, "SETITEMS expects an even number of values")
              ELSE [s EXCEPT !.stack = SubSeq(@, 1, m - 1),
                             !.heap[c.id].items = IF kind = "list" THEN @ \o vs
                                                  ELSE IF kind = "dict" THEN SetKeys(@, vs, 1) ELSE Inserts(@, vs, 1)]

StepVM(s, o) ==
    IF s.halted THEN s
    ELSE LET n == Len(s.stack) IN
    CASE o.op = "MARK"    -> Push(s, Mark)
      [] o.op = "MEMOIZE" -> IF n = 0 THEN Fail(s, "stack underflow") ELSE [s EXCEPT !.memo = Append(@, Top(s))]
      [] o.op = "BINGET"  -> IF o.i >= Len(s.memo) THEN Fail(s, "invalid object ID") ELSE Push(s, s.memo[o.i + 1])
      [] o.op = "STOP"    -> IF n = 0 THEN Fail(s, "stack underflow")
                             ELSE [s EXCEPT !.halted = TRUE, !.ok = TRUE, !.val = Top(s), !.stack = SubSeq(@, 1, n - 1)]
      [] o.op = "NONE"    -> Push(s, Atom("none", ""))
      [] o.op = "TRUE"    -> Push(s, Atom("bool", "True"))
      [] o.op = "FALSE"   -> Push(s, Atom("bool", "False"))
      [] o.op = "INT"     -> IF o.v = "?" THEN Fail(s, "bad integer") ELSE Push(s, Atom("int", o.v))
      [] o.op = "FLOAT"   -> Push(s, Atom("float", o.v))
      [] o.op = "STR"     -> Push(s, Atom("str", o.v))
      [] o.op = "BYTES"   -> Push(s, Atom("bytes", o.v))
      [] o.op = "EMPTY_LIST" -> NewObj(s, "list")
      [] o.op = "EMPTY_DICT" -> NewObj(s, "dict")
      [] o.op = "EMPTY_SET"  -> NewObj(s, "set")
      [] o.op = "APPEND"  -> IF n = 0 THEN Fail(s, "stack underflow")
                             ELSE IF n = 1 THEN Fail(s, "stack underflow")
                             ELSE LET v == s.stack[n]
                                      c == s.stack[n - 1] IN
                                  IF c.t # "ptr" \/ s.heap[c.id].t # "list" THEN Fail(s, "APPEND expects a list")
                                  ELSE [s EXCEPT !.stack = SubSeq(@, 1, n - 1), !.heap[c.id].items = Append(@, v)]
      [] o.op = "APPENDS"  -> Slice(s, "list")
      [] o.op = "SETITEMS" -> Slice(s, "dict")
      [] o.op = "ADDITEMS" -> Slice(s, "set")
      [] o.op = "EMPTY_TUPLE" -> Push(s, [t |-> "tuple", items |-> <<>>])
      [] o.op = "TUPLE1"  -> IF n < 1 THEN Fail(s, "stack underflow")
                             ELSE Push(PopN(s, 1), [t |-> "tuple", items |-> SubSeq(s.stack, n, n)])
      [] o.op = "TUPLE2"  -> IF n < 2 THEN Fail(s, "stack underflow")
                             ELSE Push(PopN(s, 2), [t |-> "tuple", items |-> SubSeq(s.stack, n - 1, n)])
      [] o.op = "TUPLE3"  -> IF n < 3 THEN Fail(s, "stack underflow")
                             ELSE Push(PopN(s, 3), [t |-> "tuple", items |-> SubSeq(s.stack, n - 2, n)])
      [] o.op = "TUPLE"   -> LET m == MarkPos(s.stack, n) IN
                             IF m = 0 THEN Fail(s, "stack underflow")
                             ELSE Push([s EXCEPT !.stack = SubSeq(@, 1, m - 1)], [t |-> "tuple", items |-> SubSeq(s.stack, m + 1, n)])
      [] o.op = "STACK_GLOBAL" ->
                             IF n < 1 THEN Fail(s, "stack underflow")
                             ELSE IF s.stack[n].t # "str" THEN Fail(s, "STACK_GLOBAL expects a string")
                             ELSE IF n < 2 THEN Fail(s, "stack underflow")
                             ELSE IF s.stack[n - 1].t # "str" THEN Fail(s, "STACK_GLOBAL expects a string")
                             ELSE Push(PopN(s, 2), [t |-> "global", mod |-> s.stack[n - 1].v, name |-> s.stack[n].v])
      [] o.op = "NEWOBJ"  -> IF n < 1 THEN Fail(s, "stack underflow")
                             ELSE IF s.stack[n].t # "tuple" THEN Fail(s, "NEWOBJ expects a tuple")
                             ELSE IF n < 2 THEN Fail(s, "stack underflow")
                             ELSE IF s.stack[n - 1].t # "global" THEN Fail(s, "NEWOBJ expects a global")
                             ELSE Push(PopN(s, 2), [t |-> "obj", mod |-> s.stack[n - 1].mod, name |-> s.stack[n - 1].name, args |-> s.stack[n]])
      [] o.op = "EOF"     -> Fail(s, "EOF")
      [] OTHER            -> Fail(s, "unimplemented opcode")

\* running off the end of the ops without STOP is a read error (EOF)
VMRun(ops) == LET s == FoldLeft(StepVM, VMInit, ops) IN IF s.halted THEN s ELSE Fail(s, "EOF")

--------------------------------------------------------------------------
\* CANONICAL FORM: nested records, mutable containers numbered in first-visit order;
\* a revisit is [t: "ref", id]

\* from a VM result
RECURSIVE CanonVM(_, _, _), CanonVMSeq(_, _, _, _)
\* returns [val, map, n]
CanonVM(heap, v, st) ==
    CASE v.t = "ptr" ->
            IF v.id \in DOMAIN st.map THEN [st EXCEPT !.val = [t |-> "ref", id |-> st.map[v.id]]]
            ELSE LET k == st.n + 1
                     st1 == [st EXCEPT !.map = [j \in DOMAIN st.map \cup {v.id} |-> IF j = v.id THEN k ELSE st.map[j]], !.n = k]
                     node == heap[v.id]
                     flat == IF node.t = "dict" THEN [i \in 1..(2 * Len(node.items)) |-> node.items[(i + 1) \div 2][IF i % 2 = 1 THEN 1 ELSE 2]]
                             ELSE node.items
                     r == CanonVMSeq(heap, flat, 1, [st1 EXCEPT !.val = <<>>])
                 IN [r EXCEPT !.val = [t |-> node.t, id |-> k, items |-> r.val]]
      [] v.t = "tuple" -> LET r == CanonVMSeq(heap, v.items, 1, [st EXCEPT !.val = <<>>]) IN
                          [r EXCEPT !.val = [t |-> "tuple", items |-> r.val]]
      [] v.t = "obj"   -> LET r == CanonVMSeq(heap, v.args.items, 1, [st EXCEPT !.val = <<>>]) IN
                          [r EXCEPT !.val = [t |-> "host", mod |-> v.mod, name |-> v.name, items |-> r.val]]
      [] OTHER -> [st EXCEPT !.val = v]

CanonVMSeq(heap, items, i, st) ==
    IF i > Len(items) THEN st
    ELSE LET acc == st.val
             r == CanonVM(heap, items[i], st) IN
         CanonVMSeq(heap, items, i + 1, [r EXCEPT !.val = Append(acc, r.val)])

CanonOfVM(s) == CanonVM(s.heap, s.val, [val |-> <<>>, map |-> [j \in {} |-> 0], n |-> 0]).val

\* from a heap value (the input side); sets and dicts are deduplicated the way Starlark does
RECURSIVE CanonH(_, _, _), CanonHSeq(_, _, _, _)
CanonH(h, x, st) ==
    IF ~IsRef(x) THEN [st EXCEPT !.val = x]
    ELSE LET node == h.nodes[x.id] IN
         IF Mutable(node)
         THEN IF x.id \in DOMAIN st.map THEN [st EXCEPT !.val = [t |-> "ref", id |-> st.map[x.id]]]
              ELSE LET k == st.n + 1
                       st1 == [st EXCEPT !.map = [j \in DOMAIN st.map \cup {x.id} |-> IF j = x.id THEN k ELSE st.map[j]], !.n = k]
                       r == CanonHSeq(h, node.kids, 1, [st1 EXCEPT !.val = <<>>])
                   IN [r EXCEPT !.val = [t |-> node.t, id |-> k, items |-> r.val]]
         ELSE LET r == CanonHSeq(h, node.kids, 1, [st EXCEPT !.val = <<>>]) IN
              IF node.t = "tuple" THEN [r EXCEPT !.val = [t |-> "tuple", items |-> r.val]]
              ELSE [r EXCEPT !.val = [t |-> "host", mod |-> node.mod, name |-> node.name, items |-> r.val]]

CanonHSeq(h, items, i, st) ==
    IF i > Len(items) THEN st
    ELSE LET acc == st.val
             r == CanonH(h, items[i], st) IN
         CanonHSeq(h, items, i + 1, [r EXCEPT !.val = Append(acc, r.val)])

CanonOfHeap(h) == CanonH(h, h.root, [val |-> <<>>, map |-> [j \in {} |-> 0], n |-> 0]).val
=============================================================================
