------------------------------ MODULE PickleGen ------------------------------
(* Prints every heap / op string of the exhaustive scopes of PickleMC as JSON, for the
   harness to build as real Starlark values / byte strings. *)
EXTENDS PickleMC, Json
GenInv == PrintT(<<"CASE", ToJson([mode |-> Mode, x |-> x])>>)
=============================================================================
