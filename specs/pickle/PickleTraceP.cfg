SPECIFICATION Spec
CONSTANTS
  Repush = FALSE
  HostCycles = "standin"
INVARIANT Done
CHECK_DEADLOCK FALSE
