SPECIFICATION Spec
CONSTANTS
  Repush = FALSE
  HostCycles = "none"
INVARIANT Done
CHECK_DEADLOCK FALSE
