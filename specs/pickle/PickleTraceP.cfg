SPECIFICATION Spec
CONSTANT Repush = FALSE
INVARIANT Done
CHECK_DEADLOCK FALSE
