----------------------------- MODULE PickleMon -----------------------------
(***************************************************************************)
(* Property monitor for the pickle codec and the function fingerprint:     *)
(*  C07 round trip, C15 decoding arbitrary bytes / corrupted records,      *)
(*  C08 fingerprints.  Events (one real call each):                        *)
(*   RoundTrip{v, ops, w, enc, dec}   v, w: canonical heaps (see Pickle);  *)
(*        enc/dec: "" ok | "error:<msg>" | "panic:<msg>" | "timeout"      *)
(*   Decode{ops, outcome, unpickler}  outcome: value | error | panic | nil *)
(*        | timeout; for unpickler = "generic" the reference decoder's     *)
(*        verdict on the same ops is compared as well (drift only)         *)
(*   Record{kind, load, run, executed, benign}  a persisted record was     *)
(*        corrupted: load/run in ok | error | panic | timeout             *)
(*   Fingerprint{prog, outcome}   outcome: ok | error | crash | timeout    *)
(*   FpPair{prog, kind, equal}    kind: reload (same text, new process /   *)
(*        load order) | referenced (a referenced atom changed) |          *)
(*        unreferenced                                                     *)
(***************************************************************************)
EXTENDS Pickle

MonInit(c) == [n |-> 0, viol |-> {}, drift |-> {}]

LOCAL V(m, prop, what) == [m EXCEPT !.viol = @ \cup {[prop |-> prop, what |-> what, at |-> m.n + 1]}]
LOCAL VIf(m, cond, prop, what) == IF cond THEN V(m, prop, what) ELSE m

LOCAL OnRoundTrip(e, m) ==
    IF e.enc # "" THEN V(m, "C07", "encoding a supported value failed: " \o SubSeq(e.enc, 1, IF Len(e.enc) < 5 THEN Len(e.enc) ELSE 5))
    ELSE LET r == VMRun(e.ops)
             m1 == VIf(m, ~r.ok, "C07", "the encoder's output is not a well-formed pickle (reference decoder rejects it)")
             m2 == VIf(m1, r.ok /\ CanonOfVM(r) # e.v, "C07", "the encoder's output is a pickle of a different value (reference decoder)")
         IN IF e.dec # "" THEN V(m2, "C07", "decoding the encoding of a value failed: " \o SubSeq(e.dec, 1, IF Len(e.dec) < 5 THEN Len(e.dec) ELSE 5))
            ELSE VIf(m2, e.w # e.v, "C07", "decode(encode(v)) differs from v in type, structure, contents or sharing")

LOCAL OnDecode(e, m) ==
    LET m1 == VIf(m, e.outcome \notin {"value", "error"}, "C15", "decoding bytes ended in " \o e.outcome \o " instead of a value or an error") IN
    IF e.unpickler = "generic" /\ e.outcome \in {"value", "error"}
    THEN LET r == VMRun(e.ops) IN
         IF r.ok # (e.outcome = "value") THEN [m1 EXCEPT !.drift = @ \cup {m.n + 1}] ELSE m1
    ELSE m1

LOCAL OnRecord(e, m) ==
    LET m1 == VIf(m, e.load \in {"panic", "timeout"}, "C15", "loading a project with a corrupted record ended in " \o e.load)
        m2 == VIf(m1, e.load = "ok" /\ e.run \in {"panic", "timeout"}, "C15", "building with a corrupted record ended in " \o e.run)
    IN  VIf(m2, e.load = "ok" /\ e.run = "ok" /\ ~e.executed /\ ~e.benign, "C15",
            "a corrupted record was silently treated as up to date")

LOCAL OnFingerprint(e, m) ==
    VIf(m, e.outcome # "ok", "C08", "computing the fingerprint of a target function ended in " \o e.outcome)

LOCAL OnFpPair(e, m) ==
    CASE e.kind = "reload"       -> VIf(m, ~e.equal, "C08", "two loads of identical project text produced different fingerprints")
      [] e.kind = "referenced"   -> VIf(m, e.equal, "C08", "changing a referenced value or code did not change the fingerprint")
      [] OTHER -> m

Mon(e, m0) ==
    LET m1 == CASE e.ev = "RoundTrip"   -> OnRoundTrip(e, m0)
                [] e.ev = "Decode"      -> OnDecode(e, m0)
                [] e.ev = "Record"      -> OnRecord(e, m0)
                [] e.ev = "Fingerprint" -> OnFingerprint(e, m0)
                [] e.ev = "FpPair"      -> OnFpPair(e, m0)
                [] OTHER -> m0
    IN [m1 EXCEPT !.n = @ + 1]

RunMon(c, es) == FoldLeft(LAMBDA m, e : Mon(e, m), MonInit(c), es)
=============================================================================
