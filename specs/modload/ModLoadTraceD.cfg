SPECIFICATION TSpec
CONSTANTS
  Cfgs = {}
  Walk = "fixed"
  EnvFail = "done"
INVARIANTS Done DInvariants
CHECK_DEADLOCK FALSE
