SPECIFICATION TSpec
CONSTANTS
  Cfgs = {}
  Walk = "current"
INVARIANTS Done DInvariants
CHECK_DEADLOCK FALSE
