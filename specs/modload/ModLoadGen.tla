---------------------------- MODULE ModLoadGen ----------------------------
(* Prints the release schedule of every complete (or deadlocked) behaviour of ModLoad. *)
EXTENDS ModLoad, Json

GenReturn == LoadReturn /\ PrintT(<<"HIST", ToJson([cfg |-> cfg, h |-> hist, end |-> "done"])>>)
\* nobody can move and the load has not returned: print the schedule that leads here
Dead == /\ ~AllExited /\ ~(\E t \in DOMAIN ts : ENABLED StepOf(t))
        /\ PrintT(<<"HIST", ToJson([cfg |-> cfg, h |-> hist, end |-> "deadlock"])>>)
        /\ FALSE
GenNext == (\E t \in DOMAIN ts : Step(t)) \/ GenReturn \/ Dead
GenSpec == Init /\ [][GenNext]_vars
=============================================================================
