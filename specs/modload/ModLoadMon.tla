--------------------------- MODULE ModLoadMon ---------------------------
(***************************************************************************)
(* Property monitor P for module loading (property C06).                   *)
(* Events (observable through dawn.Load and its Events callbacks):         *)
(*   ModuleLoading{m}  ModuleLoaded{m}  ModuleLoadFailed{m, cyclic}         *)
(*   LoadDone{err, cyclic, targets, flags, checked}   Deadlock{}  Hang{}    *)
(* m is the configuration's name of the module; cyclic = the error text    *)
(* contains "cyclic dependency"; targets/flags = names of the modules      *)
(* whose target / flag exists after a successful load (checked = TRUE).    *)
(***************************************************************************)
EXTENDS Integers, Sequences, FiniteSets, TLC, SequencesExt

LOCAL SetOfSeq(s) == { s[i] : i \in DOMAIN s }

MMods(c) == DOMAIN c.loads
MSucc(c, m) == SetOfSeq(c.loads[m]) \cap MMods(c)
RECURSIVE MReach(_, _, _)
MReach(c, seen, fr) == IF fr = {} THEN seen
                       ELSE LET nx == (UNION { MSucc(c, m) : m \in fr }) \ seen IN MReach(c, seen \cup nx, nx)
Reach(c) == MReach(c, SetOfSeq(c.roots), SetOfSeq(c.roots))
ReachPlus(c, m) == MReach(c, MSucc(c, m), MSucc(c, m))
CyclicLoads(c) == \E m \in Reach(c) : m \in ReachPlus(c, m)
BadReach(c) == Reach(c) \cap SetOfSeq(c.bad) # {}

MonInit(c) == [ cfg |-> c, execs |-> [m \in MMods(c) |-> 0], done |-> FALSE, n |-> 0, viol |-> {} ]

LOCAL V(m, what, x) == [m EXCEPT !.viol = @ \cup {[prop |-> "C06", what |-> what, m |-> x, at |-> m.n + 1]}]
LOCAL VIf(m, cond, what, x) == IF cond THEN V(m, what, x) ELSE m

LOCAL OnLoading(e, m0) ==
    IF e.m \notin MMods(m0.cfg) THEN V(m0, "module outside the configuration was executed", e.m)
    ELSE LET m1 == [m0 EXCEPT !.execs[e.m] = @ + 1] IN
         VIf(m1, m1.execs[e.m] > 1, "module executed more than once", e.m)

LOCAL OnFailed(e, m0) ==
    VIf(m0, e.cyclic /\ ~CyclicLoads(m0.cfg), "cyclic-dependency error on an acyclic load graph", e.m)

LOCAL OnLoadDone(e, m0) ==
    LET c == m0.cfg
        cyc == CyclicLoads(c)
        bad == BadReach(c)
        m1 == [m0 EXCEPT !.done = TRUE]
        m2 == VIf(m1, ~cyc /\ ~bad /\ e.err, "acyclic load graph failed to load", "")
        m3 == VIf(m2, cyc /\ ~e.err, "cyclic load graph loaded successfully", "")
        m4 == VIf(m3, cyc /\ ~bad /\ e.err /\ ~e.cyclic, "cyclic load graph failed without a cyclic-dependency error", "")
        m5 == VIf(m4, ~cyc /\ e.cyclic, "cyclic-dependency error on an acyclic load graph", "")
        m6 == VIf(m5, bad /\ ~e.err, "a failing module did not fail the load", "")
        m7 == VIf(m6, ~e.err /\ e.checked /\ SetOfSeq(e.targets) # Reach(c), "loaded project does not have exactly the targets of the reachable modules", "")
    IN  VIf(m7, ~e.err /\ e.checked /\ SetOfSeq(e.flags) # Reach(c), "loaded project does not have exactly the flags of the reachable modules", "")

Mon(e, m0) ==
    LET m1 == CASE e.ev = "ModuleLoading"    -> OnLoading(e, m0)
                [] e.ev = "ModuleLoadFailed" -> OnFailed(e, m0)
                [] e.ev = "LoadDone"         -> OnLoadDone(e, m0)
                [] e.ev = "Deadlock"         -> V(m0, "load deadlocks: every loader goroutine is blocked", "")
                [] e.ev = "Hang"             -> V(m0, "load hangs", "")
                [] e.ev = "End"              -> VIf(m0, ~m0.done, "load did not return", "")
                [] OTHER -> m0
    IN [m1 EXCEPT !.n = @ + 1]

RunMon(c, es) == FoldLeft(LAMBDA m, e : Mon(e, m), MonInit(c), es)
=============================================================================
