------------------------------ MODULE ModLoad ------------------------------
(***************************************************************************)
(* Design spec D of dawn's module loader (project.go loadPackage /          *)
(* loadModule, module.go wait / done / setLoading), at the grain of the     *)
(* verif yield hooks.                                                       *)
(*                                                                         *)
(* cfg = [loads : module -> sequence of modules its body loads, in order,   *)
(*        roots : sequence of package BUILD modules (one goroutine each),   *)
(*        bad   : sequence of modules whose body fails after its loads,     *)
(*        nofetch : sequence of (leaf, non-root, bad) modules that live in   *)
(*                a project that cannot be fetched: module.env fails        *)
(*                before the body is executed]                              *)
(*                                                                         *)
(* A thread (one per root) executes module bodies on a call stack: a        *)
(* load() of a module nobody has registered yet executes that module on     *)
(* the same goroutine; a load() of a registered module waits for it.        *)
(*                                                                         *)
(* pc of a thread = the yield it is parked at:                              *)
(*   lm.enter      entering loadModule(d)                                   *)
(*   lm.setloading about to publish  waiter.loading = d                     *)
(*   lm.load       about to execute d's body (first registrant)             *)
(*   mod.wait      about to lock d and walk its loading chain               *)
(*   mod.walk      (Walk = "fixed") one hop of the chain walk, cursor x     *)
(*   mod.sleep     blocked in cond.Wait until d is loaded (not a yield)     *)
(*   lm.clear      about to clear waiter.loading                            *)
(*   mod.done      about to publish the module's result and broadcast       *)
(*   stuck         blocked forever on a mutex (only with Walk = "current")  *)
(*                                                                         *)
(* Walk = "current" models module.wait as it was found: it holds d's mutex  *)
(* and, when d is itself loading a module other than the waiter, calls      *)
(* d.getLoading(), which locks the same mutex again: the goroutine blocks   *)
(* forever while holding it.  Walk = "fixed" models the repaired walk: no   *)
(* mutex held, one momentary lock per hop, following the chain.             *)
(*                                                                         *)
(* EnvFail = "nodone" models module.load as it was found: when module.env   *)
(* fails, load returns the error without publishing the module's result, so *)
(* the module stays registered and never becomes loaded.  EnvFail = "done"  *)
(* models the repaired load, which publishes the failure like any other.    *)
(***************************************************************************)
EXTENDS Integers, Sequences, FiniteSets, TLC, ModLoadMon

CONSTANTS Cfgs, Walk, EnvFail

VARIABLES cfg, registry, loading, loaded, result, held, ts, mon, hist

vars == <<cfg, registry, loading, loaded, result, held, ts, mon, hist>>

Mods == DOMAIN cfg.loads
SetOf(s) == { s[i] : i \in DOMAIN s }
Roots == SetOf(cfg.roots)
Bad == SetOf(cfg.bad)
NoFetch == SetOf(cfg.nofetch)
Nil == "<nil>"

\* thread record: stack of [mod, idx] frames (top = last), pc, d = module of the current
\* loadModule call, hit, x = walk cursor, res = result class of the current call
NoT == [pc |-> "lm.enter", stk |-> <<>>, d |-> Nil, hit |-> FALSE, x |-> Nil, res |-> "", woken |-> FALSE]

InitState(c) ==
    [ cfg      |-> c,
      registry |-> {},
      loading  |-> [m \in DOMAIN c.loads |-> Nil],
      loaded   |-> [m \in DOMAIN c.loads |-> FALSE],
      result   |-> [m \in DOMAIN c.loads |-> ""],
      held     |-> {},            \* modules whose mutex is held forever by a stuck goroutine
      ts       |-> [r \in SetOf(c.roots) |-> [NoT EXCEPT !.d = r]],
      mon      |-> MonInit(c) ]

Init == \E c \in Cfgs : LET s == InitState(c) IN
    /\ cfg = s.cfg /\ registry = s.registry /\ loading = s.loading /\ loaded = s.loaded
    /\ result = s.result /\ held = s.held /\ ts = s.ts /\ mon = s.mon /\ hist = <<>>

RECURSIVE Feed(_, _)
Feed(m, es) == IF es = <<>> THEN m ELSE Feed(Mon(Head(es), m), Tail(es))

Top(t) == ts[t].stk[Len(ts[t].stk)]
Waiter(t) == IF ts[t].stk = <<>> THEN Nil ELSE Top(t).mod

\* after a load() statement of the body of Top(t).mod returned class r
\* ("" = ok): continue the body; returns the new thread record
AfterLoad(T, r) ==
    LET f == T.stk[Len(T.stk)]
        m == f.mod IN
    IF r # ""
    THEN [T EXCEPT !.pc = "mod.done", !.res = r]                       \* the body fails
    ELSE IF f.idx < Len(cfg.loads[m])
         THEN [T EXCEPT !.pc = "lm.enter", !.d = cfg.loads[m][f.idx + 1],
                        !.stk = [T.stk EXCEPT ![Len(T.stk)].idx = f.idx + 1]]
         ELSE [T EXCEPT !.pc = "mod.done", !.res = IF m \in Bad THEN "bad" ELSE ""]

\* start executing module m's body on thread record T
Exec(T, m) ==
    LET T1 == [T EXCEPT !.stk = Append(T.stk, [mod |-> m, idx |-> 0])] IN
    IF Len(cfg.loads[m]) > 0
    THEN [T1 EXCEPT !.pc = "lm.enter", !.d = cfg.loads[m][1], !.stk = [T1.stk EXCEPT ![Len(T1.stk)].idx = 1]]
    ELSE [T1 EXCEPT !.pc = "mod.done", !.res = IF m \in Bad THEN "bad" ELSE ""]

\* a thread that needs module m's mutex blocks forever when a stuck goroutine holds it
Blocked(t) == [ts EXCEPT ![t].pc = "stuck"]

LmEnter(t) ==
    /\ ts[t].pc = "lm.enter"
    /\ LET d == ts[t].d IN
       IF d \in registry
       THEN /\ registry' = registry
            /\ ts' = [ts EXCEPT ![t].hit = TRUE, ![t].pc = IF Waiter(t) = Nil THEN "mod.wait" ELSE "lm.setloading"]
       ELSE /\ registry' = registry \cup {d}
            /\ ts' = [ts EXCEPT ![t].hit = FALSE, ![t].pc = IF Waiter(t) = Nil THEN "lm.load" ELSE "lm.setloading"]
    /\ UNCHANGED <<cfg, loading, loaded, result, held, mon>>

LmSetLoading(t) ==
    /\ ts[t].pc = "lm.setloading"
    /\ IF Waiter(t) \in held
       THEN ts' = Blocked(t) /\ loading' = loading
       ELSE /\ loading' = [loading EXCEPT ![Waiter(t)] = ts[t].d]
            /\ ts' = [ts EXCEPT ![t].pc = IF ts[t].hit THEN "mod.wait" ELSE "lm.load"]
    /\ UNCHANGED <<cfg, registry, loaded, result, held, mon>>

LmLoad(t) ==
    /\ ts[t].pc = "lm.load"
    /\ IF ts[t].d \in NoFetch /\ EnvFail = "nodone" /\ Waiter(t) # Nil
       THEN \* env fails: the error goes back to the loading module, nothing is published
            /\ ts' = [ts EXCEPT ![t].pc = "lm.clear", ![t].res = "bad"]
            /\ mon' = Feed(mon, << [ev |-> "ModuleLoading", m |-> ts[t].d],
                                   [ev |-> "ModuleLoadFailed", m |-> ts[t].d, cyclic |-> FALSE] >>)
       ELSE /\ ts' = [ts EXCEPT ![t] = Exec(ts[t], ts[t].d)]
            /\ mon' = Feed(mon, << [ev |-> "ModuleLoading", m |-> ts[t].d] >>)
    /\ UNCHANGED <<cfg, registry, loading, loaded, result, held>>

\* the rest of wait() once the walk found no cycle: sleep until d is loaded
Sleep(T, d) ==
    IF loaded[d] THEN IF T.stk = <<>> THEN [T EXCEPT !.pc = "exit", !.woken = FALSE]   \* a package goroutine: nothing to clear
                      ELSE [T EXCEPT !.pc = "lm.clear", !.res = result[d], !.woken = FALSE]
    ELSE [T EXCEPT !.pc = "mod.sleep", !.woken = FALSE]

ModWait(t) ==
    /\ ts[t].pc = "mod.wait"
    /\ LET d == ts[t].d
           w == Waiter(t) IN
       IF d \in held THEN ts' = Blocked(t) /\ held' = held
       ELSE IF w = Nil THEN ts' = [ts EXCEPT ![t] = Sleep(ts[t], d)] /\ held' = held
       ELSE IF Walk = "current"
       THEN IF loading[d] = Nil THEN ts' = [ts EXCEPT ![t] = Sleep(ts[t], d)] /\ held' = held
            ELSE IF loading[d] = w THEN ts' = [ts EXCEPT ![t].pc = "lm.clear", ![t].res = "cyclic"] /\ held' = held
            ELSE \* m.getLoading() while m.m is held: self-deadlock
                 ts' = [ts EXCEPT ![t].pc = "stuck"] /\ held' = held \cup {d}
       ELSE \* fixed: start the walk at d itself, no mutex held
            IF d = w THEN ts' = [ts EXCEPT ![t].pc = "lm.clear", ![t].res = "cyclic"] /\ held' = held
            ELSE ts' = [ts EXCEPT ![t].pc = "mod.walk", ![t].x = d] /\ held' = held
    /\ UNCHANGED <<cfg, registry, loading, loaded, result, mon>>

\* one hop: x := x.getLoading()
ModWalk(t) ==
    /\ ts[t].pc = "mod.walk"
    /\ LET nx == loading[ts[t].x] IN
       IF nx = Nil THEN ts' = [ts EXCEPT ![t] = Sleep(ts[t], ts[t].d)]
       ELSE IF nx = Waiter(t) THEN ts' = [ts EXCEPT ![t].pc = "lm.clear", ![t].res = "cyclic"]
       ELSE ts' = [ts EXCEPT ![t].x = nx]
    /\ UNCHANGED <<cfg, registry, loading, loaded, result, held, mon>>

ModWake(t) ==
    /\ ts[t].pc = "mod.sleep" /\ ts[t].woken
    /\ ts' = [ts EXCEPT ![t] = Sleep(ts[t], ts[t].d)]
    /\ UNCHANGED <<cfg, registry, loading, loaded, result, held, mon>>

\* the deferred waiter.setLoading(nil), then back in the body of the waiter
LmClear(t) ==
    /\ ts[t].pc = "lm.clear"
    /\ IF Waiter(t) \in held
       THEN ts' = Blocked(t) /\ loading' = loading
       ELSE /\ loading' = [loading EXCEPT ![Waiter(t)] = Nil]
            /\ ts' = [ts EXCEPT ![t] = AfterLoad(ts[t], ts[t].res)]
    /\ UNCHANGED <<cfg, registry, loaded, result, held, mon>>

\* module Top(t).mod finished its body with class ts[t].res
ModDone(t) ==
    /\ ts[t].pc = "mod.done"
    /\ LET m == Top(t).mod
           r == ts[t].res
           T1 == [ts[t] EXCEPT !.stk = SubSeq(@, 1, Len(@) - 1)] IN
       IF m \in held THEN ts' = Blocked(t) /\ UNCHANGED <<loaded, result, mon>>
       ELSE /\ loaded' = [loaded EXCEPT ![m] = TRUE]
            /\ result' = [result EXCEPT ![m] = r]
            /\ mon' = Feed(mon, << IF r = "" THEN [ev |-> "ModuleLoaded", m |-> m]
                                   ELSE [ev |-> "ModuleLoadFailed", m |-> m, cyclic |-> (r = "cyclic")] >>)
            /\ ts' = [u \in DOMAIN ts |->
                        IF u = t
                        THEN IF T1.stk = <<>> THEN [T1 EXCEPT !.pc = "exit"]
                             ELSE [T1 EXCEPT !.pc = "lm.clear", !.d = m]
                        ELSE IF ts[u].pc = "mod.sleep" /\ ts[u].d = m THEN [ts[u] EXCEPT !.woken = TRUE]
                        ELSE ts[u]]
    /\ UNCHANGED <<cfg, registry, loading, held>>

StepOf(t) == LmEnter(t) \/ LmSetLoading(t) \/ LmLoad(t) \/ ModWait(t) \/ ModWalk(t) \/ ModWake(t) \/ LmClear(t) \/ ModDone(t)

AnyWoken == \E t \in DOMAIN ts : ts[t].woken
\* woken sleepers run first (the controlled scheduler waits for quiescence)
Step(t) ==
    /\ AnyWoken => ts[t].woken
    /\ StepOf(t)
    /\ hist' = IF ts[t].woken THEN hist ELSE Append(hist, t)

AllExited == \A t \in DOMAIN ts : ts[t].pc = "exit"

\* Load returns once every package goroutine has exited; the error is that of any failed module
LoadReturn ==
    /\ AllExited /\ ~mon.done
    /\ LET failed == { m \in Mods : loaded[m] /\ result[m] # "" } IN
       \E r \in (IF failed = {} THEN {""} ELSE { result[m] : m \in failed }) :
          mon' = Feed(mon, << [ev |-> "LoadDone", err |-> r # "", cyclic |-> (r = "cyclic"),
                              targets |-> IF r = "" THEN SetToSeq({ m \in Mods : loaded[m] }) ELSE <<>>,
                              flags |-> IF r = "" THEN SetToSeq({ m \in Mods : loaded[m] }) ELSE <<>>,
                              checked |-> (r = "")] >>)
    /\ UNCHANGED <<cfg, registry, loading, loaded, result, held, ts, hist>>

Next == (\E t \in DOMAIN ts : Step(t)) \/ LoadReturn \/ (mon.done /\ UNCHANGED vars)

Spec == Init /\ [][Next]_vars
        /\ \A t \in {"p0", "p1", "p2", "p3", "p4"} : WF_vars(t \in DOMAIN ts /\ Step(t))
        /\ WF_vars(LoadReturn)

NoViolation == mon.viol = {}
Termination == <>mon.done
\* a module is executed by exactly one goroutine, the one that registered it
OnceOnly == \A m \in Mods : mon.execs[m] <= 1
\* the loading edge of a module is set only by the goroutine executing it
EdgesOK == \A m \in Mods : loading[m] # Nil => m \in registry /\ ~loaded[m]
View == <<cfg, registry, loading, loaded, result, held, ts, mon.viol, mon.done, mon.execs>>
=============================================================================
