-------------------------- MODULE ModLoadTraceD --------------------------
(***************************************************************************)
(* Trace validation of the real module loader against ModLoad.tla: every   *)
(* Step line (thread released at yield `point` for module `obj`) must be   *)
(* the D action of that thread at that pc; wake-ups are silent D steps.    *)
(* At the end D must be able to return from Load with the recorded outcome.*)
(***************************************************************************)
EXTENDS ModLoad, Json

Trace == ndJsonDeserialize("trace.ndjson")
VARIABLES ln, k, drift
tvars == <<ln, k, drift>>
Steps == Trace[ln].steps

ObjOf(t) == IF ts[t].pc = "mod.done" THEN Top(t).mod ELSE IF ts[t].pc = "mod.walk" THEN ts[t].x ELSE ts[t].d
Woken == { t \in DOMAIN ts : ts[t].woken }

TStep ==
    /\ ln <= Len(Trace) /\ k <= Len(Steps) /\ Woken = {}
    /\ LET t == Steps[k].th IN
       /\ t \in DOMAIN ts
       /\ ts[t].pc = Steps[k].point
       /\ ObjOf(t) = Steps[k].obj
       /\ Step(t)
    /\ k' = k + 1 /\ UNCHANGED <<ln, drift>>

TSettle ==
    /\ ln <= Len(Trace) /\ Woken # {}
    /\ LET t == CHOOSE x \in Woken : TRUE IN Step(t)
    /\ UNCHANGED tvars

Restart(n) ==
    IF n <= Len(Trace)
    THEN LET s == InitState(Trace[n].cfg) IN
         /\ cfg' = s.cfg /\ registry' = s.registry /\ loading' = s.loading /\ loaded' = s.loaded
         /\ result' = s.result /\ held' = s.held /\ ts' = s.ts /\ mon' = s.mon /\ hist' = <<>>
    ELSE UNCHANGED vars

\* recorded outcome of the load
Outcome(n) == LET ds == SelectSeq(Trace[n].events, LAMBDA e : e.ev = "LoadDone") IN
              IF ds = <<>> THEN [done |-> FALSE] ELSE [done |-> TRUE, err |-> ds[1].err, cyclic |-> ds[1].cyclic]

\* D's possible outcomes in the current state
DOutcomes == LET failed == { m \in Mods : loaded[m] /\ result[m] # "" } IN
             IF failed = {} THEN {[err |-> FALSE, cyclic |-> FALSE]}
             ELSE { [err |-> TRUE, cyclic |-> (result[m] = "cyclic")] : m \in failed }

TEnd ==
    /\ ln <= Len(Trace) /\ k > Len(Steps) /\ Woken = {}
    /\ LET o == Outcome(ln)
           same == IF o.done THEN AllExited /\ [err |-> o.err, cyclic |-> o.cyclic] \in DOutcomes
                   ELSE ~AllExited IN
       /\ drift' = IF same THEN drift ELSE drift \cup {[id |-> Trace[ln].id, at |-> k]}
       /\ IF same THEN TRUE ELSE PrintT(<<"DRIFT", ToJson([id |-> Trace[ln].id, at |-> k, what |-> "outcome differs"])>>)
    /\ ln' = ln + 1 /\ k' = 1
    /\ Restart(ln + 1)

TDrift ==
    /\ ln <= Len(Trace) /\ k <= Len(Steps) /\ Woken = {}
    /\ ~ENABLED TStep
    /\ drift' = drift \cup {[id |-> Trace[ln].id, at |-> k]}
    /\ PrintT(<<"DRIFT", ToJson([id |-> Trace[ln].id, at |-> k, line |-> Steps[k]])>>)
    /\ ln' = ln + 1 /\ k' = 1
    /\ Restart(ln + 1)

TInit ==
    /\ ln = 1 /\ k = 1 /\ drift = {}
    /\ LET s == InitState(Trace[1].cfg) IN
        /\ cfg = s.cfg /\ registry = s.registry /\ loading = s.loading /\ loaded = s.loaded
        /\ result = s.result /\ held = s.held /\ ts = s.ts /\ mon = s.mon /\ hist = <<>>

TNext == TStep \/ TSettle \/ TEnd \/ TDrift
TSpec == TInit /\ [][TNext]_<<vars, tvars>>
Done == (ln = Len(Trace) + 1) => PrintT(<<"DONE", Len(Trace), Cardinality(drift)>>)
DInvariants == OnceOnly /\ EdgesOK
=============================================================================
