SPECIFICATION GenSpec
CONSTANTS
  Cfgs <- GenCfgs
  Walk = "fixed"
  EnvFail = "done"
CHECK_DEADLOCK FALSE
