SPECIFICATION GenSpec
CONSTANTS
  Cfgs <- GenCfgs
  Walk = "current"
CHECK_DEADLOCK FALSE
