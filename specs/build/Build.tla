------------------------------- MODULE Build -------------------------------
(***************************************************************************)
(* Design spec D of dawn's incremental build machine (target.go            *)
(* runTarget.Evaluate, function.go load/upToDate/evaluate, sourceFile.go,  *)
(* project.go saveTargetInfo/GC).                                          *)
(*                                                                         *)
(* State: the workspace (env version of every function target, content     *)
(* token of every source, generated files), the persisted records          *)
(* .dawn/build/{targets,sources}/* = [deps: dependency -> stamp, data: own *)
(* stamp, rerun, ver], stray temp files, and - while a build process is    *)
(* alive - the loaded project (record snapshot taken at load) and the      *)
(* run-local changed/data of the visited nodes.  A build visits the nodes  *)
(* of the requested root's closure in any dependency-respecting order;     *)
(* every persistent effect is its own step, so Crash can fall between any  *)
(* two of them.                                                            *)
(*                                                                         *)
(* cfg.shape  : project shape (see BuildMon), cfg.shape2: optional shape    *)
(*              after a Reshape edit (target removed / edge changed)        *)
(* cfg.stamp  : "env"  = a function's stamp is its environment only (the    *)
(*                       design as found: a re-execution caused by a source *)
(*                       change is invisible to dependents in later builds) *)
(*              "runs" = stamp + execution counter (the repaired design)    *)
(***************************************************************************)
EXTENDS Integers, Sequences, FiniteSets, TLC, BuildMon

CONSTANTS Cfgs, MaxEdits, MaxBuilds, MaxCrashes, MaxFails, MaxGCs

VARIABLES cfg, shape, env, content, rec, temps, proc, bd, used, mon, hist, xlog

vars == <<cfg, shape, env, content, rec, temps, proc, bd, used, mon, hist, xlog>>

T == Targets(shape)
S == Sources(shape)
Nodes == T \cup S
AllNodes == Targets(cfg.shape) \cup Sources(cfg.shape) \cup
            (IF "shape2" \in DOMAIN cfg THEN Targets(cfg.shape2) \cup Sources(cfg.shape2) ELSE {})

\* helpers: function update that extends the domain, lookup with default 0
Put2(f, x, v) == [y \in DOMAIN f \cup {x} |-> IF y = x THEN v ELSE f[y]]
Get2(f, x) == IF x \in DOMAIN f THEN f[x] ELSE 0
EnvTok(n) == ToString(<<"e", n>>)

NoRec == [none |-> TRUE]
EmptyRec == [deps |-> [d \in {} |-> ""], data |-> "", rerun |-> FALSE, ver |-> 0]
IsRec(r) == "none" \notin DOMAIN r
RecOf(n) == IF IsRec(rec[n]) THEN rec[n] ELSE EmptyRec

DepsOf(n) == NodeSucc(shape, n)                 \* dependencies incl. sources / generator
IsGenerated(s) == GeneratorOf(shape, s) # {}

\* own stamp a node would record now
EnvStamp(t) == EnvTok(env[t])
SrcStamp(s) == content[s]

NoProc == [alive |-> FALSE]
NoBuild == [active |-> FALSE]

RECURSIVE Feed(_, _)
Feed(m, es) == IF es = <<>> THEN m ELSE Feed(Mon(Head(es), m), Tail(es))

InitState(c) ==
    [ cfg |-> c, shape |-> c.shape,
      env |-> [t \in Targets(c.shape) \cup (IF "shape2" \in DOMAIN c THEN Targets(c.shape2) ELSE {}) |-> 1],
      content |-> [s \in Sources(c.shape) \cup (IF "shape2" \in DOMAIN c THEN Sources(c.shape2) ELSE {}) |->
                     IF GeneratorOf(c.shape, s) # {} THEN "" ELSE "v1"],
      mon |-> MonInit(c.shape) ]

\* the initial tokens are announced to the monitor as edits
InitEvents(c) ==
    LET ts == SetToSeq(Targets(c.shape) \cup (IF "shape2" \in DOMAIN c THEN Targets(c.shape2) ELSE {}))
        ss == SetToSeq(Sources(c.shape) \cup (IF "shape2" \in DOMAIN c THEN Sources(c.shape2) ELSE {})) IN
    [i \in 1..Len(ts) |-> [ev |-> "Edit", kind |-> "env", t |-> ts[i], v |-> EnvTok(1)]] \o
    [i \in 1..Len(ss) |-> [ev |-> "Edit", kind |-> "src", s |-> ss[i], v |-> InitState(c).content[ss[i]]]]

Init == \E c \in Cfgs : LET s == InitState(c) IN
    /\ cfg = c /\ shape = s.shape /\ env = s.env /\ content = s.content
    /\ rec = [n \in AllNodes |-> NoRec]
    /\ temps = 0 /\ proc = NoProc /\ bd = NoBuild
    /\ used = [edits |-> 0, builds |-> 0, crashes |-> 0, fails |-> 0, gcs |-> 0]
    /\ mon = Feed(s.mon, InitEvents(c))
    /\ hist = <<>>
    /\ xlog = <<>>

Idle == ~proc.alive
\* cfg.mark = "started": runTarget.Evaluate records "being run" before the body (the repaired
\* design); absent / "none": the record is only written after the body, as the code was found
Marked == "mark" \in DOMAIN cfg /\ cfg.mark = "started"

--------------------------------------------------------------------------
\* user actions between processes

EditEnv(t) ==
    /\ Idle /\ used.edits < MaxEdits /\ t \in T
    /\ env' = [env EXCEPT ![t] = @ + 1]
    /\ used' = [used EXCEPT !.edits = @ + 1]
    /\ mon' = Feed(mon, << [ev |-> "Edit", kind |-> "env", t |-> t, v |-> EnvTok(env[t] + 1)] >>)
    /\ hist' = Append(hist, [op |-> "edit_env", t |-> t]) /\ xlog' = xlog
    /\ UNCHANGED <<cfg, shape, content, rec, temps, proc, bd>>

EditSrc(s) ==
    /\ Idle /\ used.edits < MaxEdits /\ s \in S /\ ~IsGenerated(s)
    /\ LET v == IF content[s] = "v1" THEN "v2" ELSE IF content[s] = "v2" THEN "v3" ELSE "v1" IN
       /\ content' = [content EXCEPT ![s] = v]
       /\ mon' = Feed(mon, << [ev |-> "Edit", kind |-> "src", s |-> s, v |-> v] >>)
    /\ used' = [used EXCEPT !.edits = @ + 1]
    /\ hist' = Append(hist, [op |-> "edit_src", s |-> s]) /\ xlog' = xlog
    /\ UNCHANGED <<cfg, shape, env, rec, temps, proc, bd>>

\* the last edit of a target's environment / of a source is undone (the value it had before)
RevertEnv(t) ==
    /\ Idle /\ used.edits < MaxEdits /\ t \in T /\ env[t] > 1
    /\ env' = [env EXCEPT ![t] = @ - 1]
    /\ used' = [used EXCEPT !.edits = @ + 1]
    /\ mon' = Feed(mon, << [ev |-> "Edit", kind |-> "env", t |-> t, v |-> EnvTok(env[t] - 1)] >>)
    /\ hist' = Append(hist, [op |-> "revert_env", t |-> t]) /\ xlog' = xlog
    /\ UNCHANGED <<cfg, shape, content, rec, temps, proc, bd>>

RevertSrc(s) ==
    /\ Idle /\ used.edits < MaxEdits /\ s \in S /\ ~IsGenerated(s) /\ content[s] \in {"v2", "v3"}
    /\ LET v == IF content[s] = "v3" THEN "v2" ELSE "v1" IN
       /\ content' = [content EXCEPT ![s] = v]
       /\ mon' = Feed(mon, << [ev |-> "Edit", kind |-> "src", s |-> s, v |-> v] >>)
    /\ used' = [used EXCEPT !.edits = @ + 1]
    /\ hist' = Append(hist, [op |-> "revert_src", s |-> s]) /\ xlog' = xlog
    /\ UNCHANGED <<cfg, shape, env, rec, temps, proc, bd>>

\* delete a generated file (a declared output disappears)
DeleteGen(s) ==
    /\ Idle /\ used.edits < MaxEdits /\ s \in S /\ IsGenerated(s) /\ content[s] # ""
    /\ content' = [content EXCEPT ![s] = ""]
    /\ mon' = Feed(mon, << [ev |-> "Edit", kind |-> "src", s |-> s, v |-> ""] >>)
    /\ used' = [used EXCEPT !.edits = @ + 1]
    /\ hist' = Append(hist, [op |-> "delete", s |-> s]) /\ xlog' = xlog
    /\ UNCHANGED <<cfg, shape, env, rec, temps, proc, bd>>

\* touch / same-content rewrite / comment edit: nothing the properties call an input changes
NonEdit ==
    /\ Idle /\ used.edits < MaxEdits
    /\ used' = [used EXCEPT !.edits = @ + 1]
    /\ mon' = Feed(mon, << [ev |-> "NonEdit", kind |-> "touch"] >>)
    /\ hist' = Append(hist, [op |-> "nonedit"]) /\ xlog' = xlog
    /\ UNCHANGED <<cfg, shape, env, content, rec, temps, proc, bd>>

Reshape ==
    /\ Idle /\ "shape2" \in DOMAIN cfg /\ shape = cfg.shape /\ used.edits < MaxEdits
    /\ shape' = cfg.shape2
    /\ used' = [used EXCEPT !.edits = @ + 1]
    /\ mon' = Feed(mon, << [ev |-> "Shape", cfg |-> cfg.shape2] >>)
    /\ hist' = Append(hist, [op |-> "reshape"]) /\ xlog' = xlog
    /\ UNCHANGED <<cfg, env, content, rec, temps, proc, bd>>

--------------------------------------------------------------------------
\* a build process: load, (gc), build, exit

\* Load: every function target's record is read and rewritten (refresh); the snapshot taken
\* here is what the build compares against
Load(mode, root, gc) ==
    /\ Idle /\ used.builds < MaxBuilds /\ root \in T
    /\ gc => used.gcs < MaxGCs
    /\ LET live == Nodes
           rec1 == [n \in AllNodes |-> IF n \in T /\ ~IsRec(rec[n]) THEN EmptyRec ELSE rec[n]]
           rec2 == IF gc THEN [n \in AllNodes |-> IF n \in live THEN rec1[n] ELSE NoRec] ELSE rec1
           gcev == IF gc THEN << [ev |-> "GC", live |-> SetToSeq(live),
                                  before |-> [n \in { x \in AllNodes : IsRec(rec1[x]) } |-> rec1[n]],
                                  after  |-> [n \in { x \in AllNodes : IsRec(rec2[x]) } |-> rec2[n]],
                                  temps |-> 0, tree_same |-> TRUE] >> ELSE <<>>
       IN /\ rec' = rec2
          /\ temps' = IF gc THEN 0 ELSE temps
          /\ proc' = [alive |-> TRUE, info |-> [n \in Nodes |-> IF IsRec(rec2[n]) THEN rec2[n] ELSE EmptyRec]]
          /\ bd' = [active |-> TRUE, root |-> root, mode |-> mode, visited |-> {}, failed |-> {},
                    changed |-> [n \in {} |-> FALSE], data |-> [n \in {} |-> ""], ver |-> [n \in {} |-> 0],
                    cur |-> "", pc |-> "", ok |-> FALSE, dd |-> [d \in {} |-> ""]]
          /\ mon' = Feed(mon, << [ev |-> "Load", ok |-> TRUE] >> \o gcev \o << [ev |-> "BuildBegin", root |-> root, mode |-> mode] >>)
    /\ used' = [used EXCEPT !.builds = @ + 1, !.gcs = IF gc THEN @ + 1 ELSE @]
    /\ hist' = Append(hist, [op |-> "build", root |-> root, mode |-> mode, gc |-> gc]) /\ xlog' = xlog
    /\ UNCHANGED <<cfg, shape, env, content>>

InClosure(n) == n \in Closure(shape, bd.root)
Ready(n) == /\ bd.active /\ bd.cur = "" /\ InClosure(n) /\ n \notin bd.visited /\ n \notin bd.failed
            /\ DepsOf(n) \subseteq (bd.visited \cup bd.failed)

\* what a dependent records / compares for dependency d
\* (sources are stamped by content alone: their hash is a complete stamp)
DepStamp(d) == IF cfg.stamp = "runs" /\ d \in T THEN ToString(<<bd.ver[d], bd.data[d]>>) ELSE bd.data[d]

\* the skip / run decision of runTarget.Evaluate for node n
Decide(n) ==
    /\ Ready(n)
    /\ LET info == proc.info[n]
           depFailed == DepsOf(n) \cap bd.failed # {}
           depData == [d \in DepsOf(n) |-> DepStamp(d)]
           depsUpToDate == \A d \in DepsOf(n) : d \in DOMAIN info.deps /\ ~bd.changed[d] /\ info.deps[d] = depData[d]
           isAlways == n \in T /\ shape.targets[n].always
           own == IF n \in T THEN EnvStamp(n) ELSE SrcStamp(n)
           gensOk == n \in T => \A g \in Gens(shape, n) : content[g] # ""
           upToDate == IF isAlways THEN TRUE ELSE (info.data = own /\ gensOk)
           rerun == info.rerun \/ isAlways
           skip == bd.mode # "always" /\ depsUpToDate /\ upToDate /\ ~rerun
       IN IF depFailed
          THEN \* a failed dependency fails the dependent without events
               /\ bd' = [bd EXCEPT !.failed = @ \cup {n}]
               /\ UNCHANGED <<mon, rec, temps, content>>
          ELSE IF skip
          THEN /\ bd' = [bd EXCEPT !.visited = @ \cup {n}, !.changed = Put2(@, n, FALSE),
                                   !.data = Put2(@, n, info.data), !.ver = Put2(@, n, info.ver)]
               /\ mon' = Feed(mon, << [ev |-> "UpToDate", l |-> n] >>)
               /\ UNCHANGED <<rec, temps, content>>
          ELSE IF bd.mode = "dry"
          THEN /\ bd' = [bd EXCEPT !.visited = @ \cup {n}, !.changed = Put2(@, n, TRUE),
                                   !.data = Put2(@, n, info.data), !.ver = Put2(@, n, info.ver)]
               /\ mon' = Feed(mon, << [ev |-> "Evaluating", l |-> n], [ev |-> "Succeeded", l |-> n] >>)
               /\ UNCHANGED <<rec, temps, content>>
          ELSE /\ bd' = [bd EXCEPT !.cur = n, !.pc = IF Marked THEN "mark1" ELSE "body", !.dd = depData]
               /\ mon' = Feed(mon, << [ev |-> "Evaluating", l |-> n] >>)
               /\ UNCHANGED <<rec, temps, content>>
    /\ UNCHANGED <<cfg, shape, env, proc, used, hist, xlog>>

\* what a body sees
Seen(t) == [env |-> EnvTok(env[t]), srcs |-> [s \in Srcs(shape, t) |-> content[s]]]

\* the body of function target n runs: it (re)writes its declared outputs as a function of
\* what it read, then succeeds or fails
Body(n, ok) ==
    /\ bd.active /\ bd.cur = n /\ bd.pc = "body"
    /\ ~ok => (n \in T /\ used.fails < MaxFails)
    /\ IF n \in T
       THEN LET seen == Seen(n)
                missing == \E g \in Gens(shape, n) : content[g] = ""
                tok == ToString(<<"out", n, seen.env, seen.srcs, [d \in TDeps(shape, n) |-> Get2(mon.succ, d)]>>)
                wrote == IF ok THEN [g \in Gens(shape, n) |-> tok] ELSE [g \in {} |-> tok]
            IN /\ content' = [s \in DOMAIN content |-> IF s \in DOMAIN wrote THEN wrote[s] ELSE content[s]]
               /\ mon' = Feed(mon, [i \in 1..Cardinality(DOMAIN wrote) |->
                                      [ev |-> "Wrote", s |-> SetToSeq(DOMAIN wrote)[i], v |-> tok]]
                                   \o << [ev |-> "ExecEnd", l |-> n, ok |-> ok, env |-> seen.env, srcs |-> seen.srcs, missing |-> missing] >>
                                   \o (IF ok THEN <<>> ELSE << [ev |-> "Failed", l |-> n] >>))
       ELSE content' = content /\ mon' = mon
    /\ bd' = [bd EXCEPT !.pc = IF ok THEN "save1" ELSE "fsave1", !.ok = ok]
    /\ used' = [used EXCEPT !.fails = IF ok THEN @ ELSE @ + 1]
    /\ UNCHANGED <<cfg, shape, env, rec, temps, proc, hist, xlog>>

\* (cfg.mark = "started") before the body runs, the record is replaced by "being run": no stamp,
\* must re-run.  A process that dies from here on leaves that behind, not the last success.
MarkTmp ==
    /\ bd.active /\ bd.cur # "" /\ bd.pc = "mark1"
    /\ temps' = temps + 1
    /\ bd' = [bd EXCEPT !.pc = "mark2"]
    /\ UNCHANGED <<cfg, shape, env, content, rec, proc, used, mon, hist, xlog>>
MarkRename ==
    /\ bd.active /\ bd.cur # "" /\ bd.pc = "mark2"
    /\ rec' = [rec EXCEPT ![bd.cur] = [deps |-> bd.dd, data |-> "", rerun |-> TRUE, ver |-> proc.info[bd.cur].ver]]
    /\ temps' = temps - 1
    /\ bd' = [bd EXCEPT !.pc = "body"]
    /\ UNCHANGED <<cfg, shape, env, content, proc, used, mon, hist, xlog>>

\* saveTargetInfo: temp file written ...
SaveTmp ==
    /\ bd.active /\ bd.cur # "" /\ bd.pc \in {"save1", "fsave1"}
    /\ temps' = temps + 1
    /\ bd' = [bd EXCEPT !.pc = IF bd.pc = "save1" THEN "save2" ELSE "fsave2"]
    /\ UNCHANGED <<cfg, shape, env, content, rec, proc, used, mon, hist, xlog>>

\* ... and renamed over the record
SaveRename ==
    /\ bd.active /\ bd.cur # "" /\ bd.pc \in {"save2", "fsave2"}
    /\ LET n == bd.cur
           info == proc.info[n]
           own == IF n \in T THEN EnvStamp(n) ELSE SrcStamp(n)
       IN IF bd.pc = "save2"
          THEN /\ rec' = [rec EXCEPT ![n] = [deps |-> bd.dd, data |-> own, rerun |-> FALSE, ver |-> info.ver + 1]]
               /\ bd' = [bd EXCEPT !.cur = "", !.pc = "", !.visited = @ \cup {n}, !.changed = Put2(@, n, TRUE),
                                   !.data = Put2(@, n, own), !.ver = Put2(@, n, info.ver + 1)]
               /\ mon' = Feed(mon, << [ev |-> "Succeeded", l |-> n] >>)
          ELSE /\ rec' = [rec EXCEPT ![n] = [deps |-> bd.dd, data |-> "", rerun |-> TRUE, ver |-> info.ver]]
               /\ bd' = [bd EXCEPT !.cur = "", !.pc = "", !.failed = @ \cup {n}]
               /\ mon' = mon
    /\ temps' = temps - 1
    /\ UNCHANGED <<cfg, shape, env, content, proc, used, hist, xlog>>

\* Run returns when the requested target has finished
BuildEnd ==
    /\ bd.active /\ bd.cur = "" /\ (bd.root \in bd.visited \/ bd.root \in bd.failed)
    /\ LET err == bd.root \in bd.failed IN
       mon' = Feed(mon, << [ev |-> "RunDone", err |-> err], [ev |-> "BuildEnd", root |-> bd.root, err |-> err] >>)
    /\ proc' = NoProc /\ bd' = NoBuild
    /\ xlog' = Append(xlog, [root |-> bd.root, mode |-> bd.mode, execd |-> SetToSeq(mon.build.execd),
                            evaluating |-> SetToSeq(mon.build.evaluating), failed |-> SetToSeq(mon.build.failedNow),
                            end |-> IF bd.root \in bd.failed THEN "fail" ELSE "ok"])
    /\ UNCHANGED <<cfg, shape, env, content, rec, temps, used, hist>>

\* the build process dies between two persistent effects
Crash ==
    /\ proc.alive /\ used.crashes < MaxCrashes
    /\ proc' = NoProc /\ bd' = NoBuild
    /\ used' = [used EXCEPT !.crashes = @ + 1]
    /\ mon' = Feed(mon, << [ev |-> "Crash"] >>)
    /\ hist' = Append(hist, [op |-> "crash", cur |-> IF bd.active THEN bd.cur ELSE "", pc |-> IF bd.active THEN bd.pc ELSE "",
                             visited |-> IF bd.active THEN SetToSeq(bd.visited) ELSE <<>>])
    /\ xlog' = Append(xlog, [root |-> IF bd.active THEN bd.root ELSE "", mode |-> IF bd.active THEN bd.mode ELSE "",
                            execd |-> IF bd.active THEN SetToSeq(mon.build.execd) ELSE <<>>,
                            evaluating |-> IF bd.active THEN SetToSeq(mon.build.evaluating) ELSE <<>>,
                            failed |-> IF bd.active THEN SetToSeq(mon.build.failedNow) ELSE <<>>, end |-> "crash"])
    /\ UNCHANGED <<cfg, shape, env, content, rec, temps>>

Next ==
    \/ \E t \in T : EditEnv(t) \/ RevertEnv(t)
    \/ \E s \in S : EditSrc(s) \/ DeleteGen(s) \/ RevertSrc(s)
    \/ NonEdit \/ Reshape
    \/ \E r \in T, m \in {"real", "dry", "always"}, g \in BOOLEAN : Load(m, r, g)
    \/ \E n \in Nodes : Decide(n)
    \/ \E n \in Nodes, ok \in BOOLEAN : Body(n, ok)
    \/ MarkTmp \/ MarkRename \/ SaveTmp \/ SaveRename \/ BuildEnd \/ Crash

Spec == Init /\ [][Next]_vars

NoViolation == mon.viol = {}
\* violations other than the staleness the "env" stamping design admits
NoViolationButStale == \A v \in mon.viol : v.prop \in {"C01", "C03"} /\ cfg.stamp = "env"
TempsOK == temps >= 0
View == <<cfg, shape, env, content, rec, temps, proc, bd, used,
          mon.viol, mon.env, mon.src, mon.lastOk, mon.succ, mon.failed, mon.unsure, mon.loaded, mon.build, mon.phase,
          mon.lastDry, mon.crashed>>
=============================================================================
