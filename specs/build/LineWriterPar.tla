--------------------------- MODULE LineWriterPar ---------------------------
(***************************************************************************)
(* Two writers of one line writer.  A target's standard output and         *)
(* standard error are the same lineWriter, and sh.exec runs the two sides  *)
(* of a pipeline concurrently, so Write is called from two goroutines.     *)
(*                                                                         *)
(* Each writer writes complete lines of its own letter, every line in two  *)
(* chunks: the letter, then the letter and a line break.  Write on a chunk *)
(* without a line break appends to the buffer; on a chunk that ends a line *)
(* it reads the buffer, delivers buffer + text, and empties the buffer.    *)
(* The steps of one Write are separate actions (read, then act) unless     *)
(* Locked, in which case a Write is one step (lineWriter.m is held).       *)
(*                                                                         *)
(* Locked = FALSE is the writer as found (defect 32): TLC finds a line     *)
(* delivered with a character missing or twice.  Locked = TRUE: every      *)
(* character is delivered exactly once and every delivered line is made of *)
(* whole chunks.                                                           *)
(***************************************************************************)
EXTENDS Integers, Sequences, TLC, FiniteSets

CONSTANTS Locked, LinesPer   \* lines each writer writes

Writers == {"a", "b"}
VARIABLES buf,       \* the shared buffer (a string)
          pc,        \* per writer: "idle" | "read" (buffer read, not yet acted)
          seen,      \* per writer: the buffer as read
          step,      \* per writer: chunks written so far (2 per line)
          printed    \* delivered lines

vars == <<buf, pc, seen, step, printed>>

Init == /\ buf = "" /\ pc = [w \in Writers |-> "idle"] /\ seen = [w \in Writers |-> ""]
        /\ step = [w \in Writers |-> 0] /\ printed = <<>>

EndsLine(w) == step[w] % 2 = 1     \* the second chunk of a line carries the line break

\* the effect of one whole Write of writer w on (buffer b)
Act(w, b) ==
    IF EndsLine(w) THEN /\ printed' = Append(printed, b \o w)
                        /\ buf' = ""
    ELSE /\ buf' = b \o w
         /\ UNCHANGED printed

WriteAtomic(w) ==
    /\ Locked /\ step[w] < 2 * LinesPer
    /\ Act(w, buf)
    /\ step' = [step EXCEPT ![w] = @ + 1]
    /\ UNCHANGED <<pc, seen>>

Read(w) ==
    /\ ~Locked /\ pc[w] = "idle" /\ step[w] < 2 * LinesPer
    /\ seen' = [seen EXCEPT ![w] = buf]
    /\ pc' = [pc EXCEPT ![w] = "read"]
    /\ UNCHANGED <<buf, step, printed>>

Apply(w) ==
    /\ ~Locked /\ pc[w] = "read"
    /\ Act(w, seen[w])
    /\ step' = [step EXCEPT ![w] = @ + 1]
    /\ pc' = [pc EXCEPT ![w] = "idle"]
    /\ UNCHANGED seen

Done == \A w \in Writers : step[w] = 2 * LinesPer /\ pc[w] = "idle"
Next == (\E w \in Writers : WriteAtomic(w) \/ Read(w) \/ Apply(w)) \/ (Done /\ UNCHANGED vars)
Spec == Init /\ [][Next]_vars

RECURSIVE CountIn(_, _)
CountIn(s, c) == IF s = "" THEN 0 ELSE (IF SubSeq(s, 1, 1) = c THEN 1 ELSE 0) + CountIn(SubSeq(s, 2, Len(s)), c)
RECURSIVE Total(_, _)
Total(ls, c) == IF ls = <<>> THEN 0 ELSE CountIn(Head(ls), c) + Total(Tail(ls), c)

\* at the end every character written has been delivered exactly once (the buffer is empty:
\* every writer ended its last line)
ExactlyOnce == Done => /\ buf = ""
                       /\ \A w \in Writers : Total(printed, w) = 2 * LinesPer
                       /\ Len(printed) = 2 * LinesPer
=============================================================================
