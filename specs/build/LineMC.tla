------------------------------- MODULE LineMC -------------------------------
EXTENDS LineWriter
CONSTANT MaxLen
Alpha == {"x", "\n"}
RECURSIVE Strs(_)
Strs(n) == IF n = 0 THEN {""} ELSE LET S == Strs(n - 1) IN S \cup { s \o c : s \in { z \in S : Len(z) = n - 1 }, c \in Alpha }
\* all chunkings into <= 3 chunks (empty chunks included) of all texts up to MaxLen
MCTexts == { <<a>> : a \in Strs(MaxLen) } \cup
           { <<a, b>> : a \in Strs(MaxLen), b \in Strs(MaxLen - 1) } \cup
           { <<a, b, c>> : a \in Strs(MaxLen - 1), b \in Strs(1), c \in Strs(MaxLen - 2) }
=============================================================================
