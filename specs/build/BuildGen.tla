----------------------------- MODULE BuildGen -----------------------------
(* History generator: prints the operation history and the per-build executed sets that
   Build.tla predicts, whenever a build process ends, for replay on the real dawn. *)
EXTENDS Build, Json

GenNext == /\ Next
           /\ IF proc.alive /\ ~proc'.alive /\ used'.builds >= 2
              THEN PrintT(<<"HIST", ToJson([cfg |-> cfg, h |-> hist', x |-> xlog', viol |-> mon'.viol])>>)
              ELSE TRUE
GenSpec == Init /\ [][GenNext]_vars
=============================================================================
