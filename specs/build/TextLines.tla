----------------------------- MODULE TextLines -----------------------------
(* Lines(s): the lines of a text; a trailing unterminated part is a line, a trailing
   newline adds none. *)
EXTENDS Integers, Sequences
RECURSIVE SplitFrom(_, _, _)
SplitFrom(s, i, cur) ==
    IF i > Len(s) THEN (IF cur = "" THEN <<>> ELSE <<cur>>)
    ELSE IF SubSeq(s, i, i) = "\n" THEN <<cur>> \o SplitFrom(s, i + 1, "")
    ELSE SplitFrom(s, i + 1, cur \o SubSeq(s, i, i))
Lines(s) == SplitFrom(s, 1, "")
=============================================================================
