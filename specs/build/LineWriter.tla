----------------------------- MODULE LineWriter -----------------------------
(***************************************************************************)
(* Design spec of dawn's line writer (lineWriter.go): target and module    *)
(* output is written in arbitrary chunks and delivered to Events.Print as  *)
(* whole lines; Flush delivers a trailing unterminated line.  A writer     *)
(* lives as long as its target, and a target can run more than once on one *)
(* Project (REPL run()), so a writer sees several write...flush rounds.    *)
(*                                                                         *)
(* ResetOnFlush = FALSE models the writer as found (Flush printed the      *)
(* buffer but kept it, so the next round re-delivered it); TRUE models the *)
(* repaired writer.                                                        *)
(***************************************************************************)
EXTENDS Integers, Sequences, TLC, SequencesExt, TextLines

CONSTANTS Texts,        \* set of sequences of chunks (one round = one sequence of chunks)
          Rounds,       \* number of write...flush rounds
          ResetOnFlush

VARIABLES plan, round, k, buf, printed, written, expected, done

vars == <<plan, round, k, buf, printed, written, expected, done>>

Init == /\ plan \in [1..Rounds -> Texts]
        /\ round = 1 /\ k = 1 /\ buf = "" /\ printed = <<>> /\ written = "" /\ expected = <<>> /\ done = FALSE

\* Write(chunk): complete lines are delivered, the rest is buffered
RECURSIVE Deliver(_, _, _)
Deliver(b, chunk, out) ==  \* returns <<new buffer, lines delivered>>
    LET nl == CHOOSE i \in 1..(Len(chunk) + 1) : (i = Len(chunk) + 1 \/ SubSeq(chunk, i, i) = "\n")
                                                 /\ \A j \in 1..(i - 1) : SubSeq(chunk, j, j) # "\n" IN
    IF nl = Len(chunk) + 1 THEN <<b \o chunk, out>>
    ELSE Deliver("", SubSeq(chunk, nl + 1, Len(chunk)), Append(out, b \o SubSeq(chunk, 1, nl - 1)))

Write ==
    /\ ~done /\ k <= Len(plan[round])
    /\ LET r == Deliver(buf, plan[round][k], <<>>) IN
       /\ buf' = r[1]
       /\ printed' = printed \o r[2]
    /\ written' = written \o plan[round][k]
    /\ k' = k + 1
    /\ UNCHANGED <<plan, round, done, expected>>

Flush ==
    /\ ~done /\ k > Len(plan[round])
    /\ printed' = IF buf # "" THEN Append(printed, buf) ELSE printed
    /\ buf' = IF ResetOnFlush THEN "" ELSE buf
    /\ expected' = expected \o Lines(written)
    /\ written' = ""
    /\ IF round < Rounds
       THEN round' = round + 1 /\ k' = 1 /\ done' = FALSE
       ELSE done' = TRUE /\ UNCHANGED <<round, k>>
    /\ UNCHANGED plan

Next == Write \/ Flush \/ (done /\ UNCHANGED vars)
Spec == Init /\ [][Next]_vars

\* what was delivered at the end is exactly the lines of what each round wrote, each once and
\* in order, whatever the chunking
Faithful == done => printed = expected
\* within a round, what was delivered plus the buffer is what was written so far
Prefix == ~done => printed \o (IF buf = "" THEN <<>> ELSE <<buf>>) = expected \o Lines(written)
=============================================================================
