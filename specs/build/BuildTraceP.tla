---------------------------- MODULE BuildTraceP ----------------------------
(* Evaluates recorded histories of real dawn builds against BuildMon. *)
EXTENDS Integers, Sequences, FiniteSets, TLC, Json, BuildMon

Trace == ndJsonDeserialize("trace.ndjson")
VARIABLES i, nviol
Check(t) == RunMon(t.cfg, t.events).viol
Init == i = 1 /\ nviol = 0
Next ==
    /\ i <= Len(Trace)
    /\ LET v == Check(Trace[i]) IN
       /\ IF v = {} THEN TRUE ELSE PrintT(<<"VIOL", ToJson([id |-> Trace[i].id, viol |-> v])>>)
       /\ nviol' = nviol + Cardinality(v)
    /\ i' = i + 1
Spec == Init /\ [][Next]_<<i, nviol>>
Done == (i = Len(Trace) + 1) => PrintT(<<"DONE", Len(Trace), nviol>>)
=============================================================================
