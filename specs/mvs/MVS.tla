-------------------------------- MODULE MVS --------------------------------
(***************************************************************************)
(* Minimal version selection as dawn uses it (internal/mvs over            *)
(* github.com/pgavlin/mvs).                                                *)
(*                                                                         *)
(* A universe is [req : node -> sequence of nodes] where a node is the     *)
(* string "path/n": project path (major suffix included: "p" and "p@v2"    *)
(* are different projects) and version number n.  n < 100 stands for the   *)
(* tag v?.n.0.  n >= 100 = 100*minor + 10*patch + k stands for the tag      *)
(* v?.minor.patch when k = 0, for the pre-release tag -rc.(k-6) of the NEXT  *)
(* tag (the one numbered (n div 10 + 1) * 10) when k is 7, 8 or 9, and,     *)
(* when k = 5, for the untagged revision                                    *)
(* that follows that tag (its pseudo-version v?.minor.(patch+1)-0.time-rev  *)
(* sorts between the tag and the next one, as the numbers do).              *)
(* DOMAIN req = every version that exists, tagged or not; only tagged      *)
(* versions are candidates of version, range, latest, upgrade and patch    *)
(* queries, an untagged one is reached by a ref query or a requirement.    *)
(* Root requirements are a sequence of nodes.                              *)
(*                                                                         *)
(* Reach = least fixpoint of the requirement edges from the roots;         *)
(* BuildList = for every path in Reach the highest version in Reach.       *)
(* The same computation as a worklist machine (one visited node per step,  *)
(* any order) is the design TLC checks for order independence.             *)
(***************************************************************************)
EXTENDS Integers, Sequences, FiniteSets, TLC, SequencesExt

\* "path/n" -> path, n
SlashIdx(s) == CHOOSE i \in 1..Len(s) : SubSeq(s, i, i) = "/" /\ \A j \in (i + 1)..Len(s) : SubSeq(s, j, j) # "/"
PathOf(node) == SubSeq(node, 1, SlashIdx(node) - 1)
Digit(c) == CASE c = "0" -> 0 [] c = "1" -> 1 [] c = "2" -> 2 [] c = "3" -> 3 [] c = "4" -> 4
              [] c = "5" -> 5 [] c = "6" -> 6 [] c = "7" -> 7 [] c = "8" -> 8 [] c = "9" -> 9
RECURSIVE Num(_, _, _)
Num(s, i, acc) == IF i > Len(s) THEN acc ELSE Num(s, i + 1, acc * 10 + Digit(SubSeq(s, i, i)))
VerOf(node) == Num(node, SlashIdx(node) + 1, 0)
Node(p, n) == p \o "/" \o ToString(n)

Succ(u, node) == IF node \in DOMAIN u.req THEN ToSet(u.req[node]) ELSE {}
RECURSIVE ReachFrom(_, _, _)
ReachFrom(u, seen, fr) == IF fr = {} THEN seen
                          ELSE LET nx == (UNION { Succ(u, x) : x \in fr }) \ seen IN ReachFrom(u, seen \cup nx, nx)
Reach(u, roots) == ReachFrom(u, ToSet(roots), ToSet(roots))
Paths(S) == { PathOf(x) : x \in S }
MaxVer(S, p) == LET vs == { VerOf(x) : x \in { y \in S : PathOf(y) = p } } IN CHOOSE v \in vs : \A w \in vs : w <= v
BuildList(u, roots) == LET R == Reach(u, roots) IN [p \in Paths(R) |-> MaxVer(R, p)]

\* tagged versions of a path
Tagged(n) == n < 100 \/ n % 10 \in {0, 7, 8, 9}
Release(n) == n < 100 \/ n % 10 = 0
\* versions with the same major.minor (a pre-release belongs to the tag it precedes)
Group(n) == IF n < 100 THEN n ELSE IF n % 10 \in {7, 8, 9} THEN ((n \div 10 + 1) * 10) \div 100 ELSE n \div 100
Tags(u, p) == { v \in { VerOf(x) : x \in { y \in DOMAIN u.req : PathOf(y) = p } } : Tagged(v) }
MaxOf(S) == CHOOSE v \in S : \A w \in S : w <= v

\* the version a query denotes: [ok, v].  q = [kind, n]; cur = current version of the path in
\* the build list (0 if absent)
Resolve(u, p, q, cur) ==
    LET T == Tags(u, p)
        pick(S) == IF S = {} THEN [ok |-> FALSE] ELSE [ok |-> TRUE, v |-> MaxOf(S)]
        \* the latest release, or the latest pre-release of a project that has no release yet
        latest == IF { t \in T : Release(t) } # {} THEN { t \in T : Release(t) } ELSE T
    IN
    CASE q.kind = "latest"  -> pick(latest)
      [] q.kind = "exact"   -> pick({ t \in T : t = q.n })
      [] q.kind = "lt"      -> pick({ t \in T : t < q.n })
      [] q.kind = "le"      -> pick({ t \in T : t <= q.n })
      [] q.kind = "gt"      -> pick({ t \in T : t > q.n })
      [] q.kind = "ge"      -> pick({ t \in T : t >= q.n })
      [] q.kind = "upgrade" -> IF latest = {} THEN pick(IF cur > 0 THEN {cur} ELSE {})
                               ELSE pick({MaxOf(latest)} \cup (IF cur > 0 THEN {cur} ELSE {}))
      \* the latest tagged patch release of the selected major.minor, never below the selection
      [] q.kind = "patch"   -> IF cur > 0 THEN pick({ t \in T : Group(t) = Group(cur) /\ t > cur } \cup {cur}) ELSE pick(latest)
      \* a branch or revision: the tag on that revision, or the revision's pseudo-version
      [] q.kind = "ref"     -> IF Node(p, q.n) \in DOMAIN u.req THEN [ok |-> TRUE, v |-> q.n] ELSE [ok |-> FALSE]
      [] OTHER -> [ok |-> FALSE]

--------------------------------------------------------------------------
\* the worklist machine
CONSTANTS Universes
VARIABLES uni, roots, todo, seen, sel
vars == <<uni, roots, todo, seen, sel>>
Init == /\ \E x \in Universes : uni = x.u /\ roots = x.roots
        /\ todo = ToSet(roots) /\ seen = ToSet(roots) /\ sel = [p \in {} |-> 0]
Visit(x) == /\ x \in todo
            /\ LET new == Succ(uni, x) \ seen IN
               /\ todo' = (todo \ {x}) \cup new
               /\ seen' = seen \cup new
            /\ sel' = [p \in DOMAIN sel \cup {PathOf(x)} |->
                          IF p = PathOf(x) THEN (IF p \in DOMAIN sel /\ sel[p] > VerOf(x) THEN sel[p] ELSE VerOf(x)) ELSE sel[p]]
            /\ UNCHANGED <<uni, roots>>
Next == (\E x \in todo : Visit(x)) \/ (todo = {} /\ UNCHANGED vars)
Spec == Init /\ [][Next]_vars /\ WF_vars(\E x \in todo : Visit(x))
\* whatever the visiting order, the machine ends with the declarative build list
OrderIndependent == todo = {} => sel = BuildList(uni, roots)
Terminates == <>(todo = {})
=============================================================================
