------------------------------ MODULE MvsTraceP ------------------------------
EXTENDS Json, MvsMon
Trace == ndJsonDeserialize("trace.ndjson")
VARIABLES i, nviol
TInit == i = 1 /\ nviol = 0 /\ uni = [req |-> <<>>] /\ roots = <<>> /\ todo = {} /\ seen = {} /\ sel = <<>>
TNext == /\ i <= Len(Trace)
         /\ LET r == RunMon(Trace[i].cfg, Trace[i].events) IN
            /\ IF r.viol = {} THEN TRUE ELSE PrintT(<<"VIOL", ToJson([id |-> Trace[i].id, viol |-> r.viol])>>)
            /\ nviol' = nviol + Cardinality(r.viol)
         /\ i' = i + 1 /\ UNCHANGED vars
TSpec == TInit /\ [][TNext]_<<i, nviol, vars>>
Done == (i = Len(Trace) + 1) => PrintT(<<"DONE", Len(Trace), nviol>>)
=============================================================================
