SPECIFICATION TSpec
CONSTANT Universes = {}
INVARIANT Done
CHECK_DEADLOCK FALSE
