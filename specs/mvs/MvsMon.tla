------------------------------- MODULE MvsMon -------------------------------
(***************************************************************************)
(* Monitor for C10 and C11.  A trace line carries cfg = the universe       *)
(* [req] and its events:                                                   *)
(*  BuildList{roots, result, err, variant}   real mvs.BuildList; result:    *)
(*        path -> n; variant names declaration order / cache state         *)
(*  Op{kind, path, q, before, after, again, err}  real Tidy / Get /         *)
(*        UpgradeAll; before/after/again: requirement name -> node         *)
(***************************************************************************)
EXTENDS MVS

Nodes(reqs) == [i \in 1..Cardinality(DOMAIN reqs) |-> reqs[SetToSeq(DOMAIN reqs)[i]]]
BL(u, reqs) == BuildList(u, Nodes(reqs))
Get0(f, x) == IF x \in DOMAIN f THEN f[x] ELSE 0

MonInit(c) == [u |-> c, n |-> 0, viol |-> {}]
LOCAL V(m, prop, what, x) == [m EXCEPT !.viol = @ \cup {[prop |-> prop, what |-> what, x |-> x, at |-> m.n + 1]}]
LOCAL VIf(m, c, prop, what, x) == IF c THEN V(m, prop, what, x) ELSE m

LOCAL OnBuildList(e, m) ==
    IF e.err # "" THEN V(m, "C10", "resolving a well-formed requirement graph failed", e.variant)
    ELSE LET want == BuildList(m.u, e.roots) IN
         IF e.result = want THEN m
         ELSE IF DOMAIN e.result # DOMAIN want
              THEN V(m, "C10", "the build list does not contain exactly the projects reachable through requirements", e.variant)
              ELSE V(m, "C10", "a project is not selected at the highest version demanded by a reachable requirement", e.variant)

LOCAL NamesOK(before, after) ==
    \* a requirement that survives (its project is still required) keeps its name; the name of
    \* a requirement that was dropped may be taken by a new one
    \A n \in DOMAIN before :
        (\E k \in DOMAIN after : PathOf(after[k]) = PathOf(before[n])) => (n \in DOMAIN after /\ PathOf(after[n]) = PathOf(before[n]))

\* one project required under two names: the edits are judged as a whole in that case
LOCAL Aliased(reqs) == \E n1, n2 \in DOMAIN reqs : n1 # n2 /\ PathOf(reqs[n1]) = PathOf(reqs[n2])
LOCAL OnOpPlain(e, m) ==
    IF e.err # "" THEN (IF e.expect_ok THEN V(m, "C11", "a requirement edit that should succeed failed", e.kind) ELSE m)
    ELSE LET u == m.u
             b0 == BL(u, e.before)
             b1 == BL(u, e.after)
             m1 == VIf(m, ~NamesOK(e.before, e.after), "C11", "an existing requirement name was not preserved", e.kind)
             \* is the first or the repeated application a downgrade of the queried project?
             isDown == e.kind = "get" /\
                       LET r1 == Resolve(u, e.path, e.q, Get0(b0, e.path))
                           r2 == Resolve(u, e.path, e.q, Get0(b1, e.path)) IN
                       (r1.ok /\ r1.v < Get0(b0, e.path)) \/ (r2.ok /\ r2.v < Get0(b1, e.path))
             \* a patch query is relative to the selected version: when the first application moves the
             \* project into a newer major.minor (through the requirements it brings in), the same
             \* query denotes a newer version the second time and the repetition is a new operation
             moved == e.kind = "get" /\ e.q.kind = "patch" /\
                      LET r1 == Resolve(u, e.path, e.q, Get0(b0, e.path))
                          r2 == Resolve(u, e.path, e.q, Get0(b1, e.path)) IN
                      r1.ok /\ r2.ok /\ r2.v > r1.v /\ r2.v > Get0(b1, e.path)
             m2 == VIf(m1, e.again # e.after /\ ~moved, "C11",
                       IF isDown THEN "repeating a downgrade changed the requirements again"
                       ELSE "repeating the operation changed the requirements again", e.kind)
             m3 == CASE e.kind = "tidy" -> VIf(m2, b1 # b0, "C11", "tidy changed the build list", e.kind)
                     [] e.kind = "upgradeall" ->
                            LET m31 == VIf(m2, \E p \in DOMAIN b0 : Get0(b1, p) < b0[p], "C11", "upgrading all projects lowered a project", e.kind) IN
                            VIf(m31, \E p \in DOMAIN b0 : Tags(u, p) # {} /\ Get0(b1, p) < MaxOf(Tags(u, p) \cup {b0[p]}),
                                "C11", "upgrading all projects left a project below its latest version", e.kind)
                     [] e.kind = "get" ->
                            LET cur == Get0(b0, e.path)
                                r == Resolve(u, e.path, e.q, cur) IN
                            IF ~r.ok THEN m2
                            ELSE IF r.v >= cur
                            THEN LET m31 == VIf(m2, Get0(b1, e.path) < r.v, "C11", "after an upgrade the build list does not contain the resolved version", e.q.kind) IN
                                 VIf(m31, \E p \in DOMAIN b0 : p # e.path /\ Get0(b1, p) < b0[p], "C11", "upgrading one project lowered another", e.q.kind)
                            ELSE VIf(m2, Get0(b1, e.path) > r.v, "C11", "after a downgrade the project is above the requested version", e.q.kind)
                     [] OTHER -> m2
         IN m3

\* the harness writes a version that is none of the universe's as "path/?text"
LOCAL Unknown(node) == SubSeq(node, SlashIdx(node) + 1, SlashIdx(node) + 1) = "?"
LOCAL OnOp(e, m) ==
    IF e.err = "" /\ \E r \in {e.after, e.again} : \E k \in DOMAIN r : Unknown(r[k])
    THEN V(m, "C11", "a requirement edit selected a version that the queried revision does not denote", e.kind)
    ELSE
    IF ~Aliased(e.before) THEN OnOpPlain(e, m)
    ELSE LET r == OnOpPlain(e, [m EXCEPT !.viol = {}])
             lost == "an existing requirement name was not preserved"
             \* every name of a project that is still required survives, aliased or not
             m1 == VIf(m, \E x \in r.viol : x.what = lost, "C11", lost, e.kind) IN
         IF \A x \in r.viol : x.what = lost THEN m1
         ELSE V(m1, "C11", "a requirement edit mishandles a project that is required under two names", e.kind)

Mon(e, m0) ==
    LET m1 == CASE e.ev = "BuildList" -> OnBuildList(e, m0) [] e.ev = "Op" -> OnOp(e, m0) [] OTHER -> m0
    IN [m1 EXCEPT !.n = @ + 1]
RunMon(c, es) == FoldLeft(LAMBDA m, e : Mon(e, m), MonInit(c), es)
=============================================================================
