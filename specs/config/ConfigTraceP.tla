---------------------------- MODULE ConfigTraceP ----------------------------
EXTENDS ConfigStore
Trace == ndJsonDeserialize("trace.ndjson")
VARIABLES i, nviol
TInit == i = 1 /\ nviol = 0 /\ stored = [set |-> FALSE] /\ case = [name |-> ""]
TNext == /\ i <= Len(Trace)
         /\ LET r == RunMon(<<>>, Trace[i].events) IN
            /\ IF r.viol = {} THEN TRUE ELSE PrintT(<<"VIOL", ToJson([id |-> Trace[i].id, viol |-> r.viol])>>)
            /\ nviol' = nviol + Cardinality(r.viol)
         /\ i' = i + 1 /\ UNCHANGED <<stored, case>>
TSpec == TInit /\ [][TNext]_<<i, nviol, stored, case>>
Done == (i = Len(Trace) + 1) => PrintT(<<"DONE", Len(Trace), nviol>>)
=============================================================================
