---------------------------- MODULE ConfigStore ----------------------------
(***************************************************************************)
(* dawn.toml as a register (internal/project/config.go): Write(c) stores a *)
(* configuration, Load returns the stored one, and writing what was loaded *)
(* stores the same bytes.  The state machine is trivial; what TLC          *)
(* contributes is (1) the enumeration of the case structure - which        *)
(* character class every string position of a configuration is drawn from, *)
(* how many requirements, which path form - and (2) the evaluation of the  *)
(* register laws on every real Write/Load/Write triple.                    *)
(*                                                                         *)
(* A configuration is [name, version, ignore: seq of str,                  *)
(*                     reqs: seq of <<name, path, version>> sorted by name]*)
(***************************************************************************)
EXTENDS Integers, Sequences, FiniteSets, TLC, SequencesExt, Json

\* ---- the register ----------------------------------------------------------
VARIABLES stored, case
Classes == {"plain", "space", "dot", "squote", "dquote", "backslash", "control", "newline", "unicode", "nonbmp", "hash", "equals", "bracket", "percent"}
PathForms == {"plain", "nested", "v2", "v10", "host", "atword", "atodd", "percent", "atscope"}
Cases == [name : Classes \cup {"empty"}, ignore : SUBSET {"plain", "dquote", "newline", "pathlike"}, nreq : 0..2,
          key : Classes \cup {"empty"}, key2 : {"plain", "dquote", "unicode"}, path : PathForms]

Init == stored = [set |-> FALSE] /\ case \in Cases
Write == stored' = [set |-> TRUE, c |-> case] /\ UNCHANGED case          \* WriteConfigFile
Load == stored.set /\ UNCHANGED <<stored, case>>   \* LoadConfigFile returns stored.c
Next == Write \/ Load
Spec == Init /\ [][Next]_<<stored, case>>
\* the register law at design level: what is loaded is what was written
LoadReturnsWritten == stored.set => stored.c = case
GenCase == PrintT(<<"CASE", ToJson(case)>>)

\* ---- monitor ---------------------------------------------------------------
MonInit(c) == [n |-> 0, viol |-> {}]
LOCAL V(m, what, x) == [m EXCEPT !.viol = @ \cup {[prop |-> "C19", what |-> what, x |-> x, at |-> m.n + 1]}]
\* RoundTrip{c, werr, c2, lerr, same_bytes, w2err}
LOCAL OnRoundTrip(e, m) ==
    IF e.werr # "" THEN V(m, "a valid configuration could not be written", e.cls)
    ELSE IF e.lerr # "" THEN V(m, "a written configuration could not be loaded back", e.cls)
    ELSE IF e.c2 # e.c THEN V(m, "loading a written configuration yields a different configuration", e.cls)
    ELSE IF e.w2err # "" THEN V(m, "the loaded configuration could not be written again", e.cls)
    ELSE IF ~e.same_bytes THEN V(m, "writing the loaded configuration again produces different bytes", e.cls)
    ELSE m
\* Rewrite{cmd, before, after, again, err, same_bytes}: the real `dawn tidy` ran twice on a project
\* file whose one requirement is already minimal: the file holds the same configuration afterwards
LOCAL OnRewrite(e, m) ==
    IF e.err # "" THEN V(m, "rewriting the project file failed", e.cmd)
    ELSE IF e.after # e.before THEN V(m, "rewriting the project file lost or changed part of the configuration", e.cmd)
    ELSE IF e.again # e.after \/ ~e.same_bytes THEN V(m, "rewriting the project file a second time changed it again", e.cmd)
    ELSE m
Mon(e, m0) == LET m1 == IF e.ev = "RoundTrip" THEN OnRoundTrip(e, m0) ELSE IF e.ev = "Rewrite" THEN OnRewrite(e, m0) ELSE m0 IN [m1 EXCEPT !.n = @ + 1]
RunMon(c, es) == FoldLeft(LAMBDA m, e : Mon(e, m), MonInit(c), es)
=============================================================================
