SPECIFICATION Spec
INVARIANTS LoadReturnsWritten GenCase
CHECK_DEADLOCK FALSE
