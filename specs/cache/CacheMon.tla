---------------------------- MODULE CacheMon ----------------------------
(***************************************************************************)
(* Property monitor P for Cache.once (property C20).                       *)
(* Events: Call{c,key}  Invoke{c,key,tok,ok}  Return{c,key,ok,val}         *)
(*   tok: token made by the harness callable for this invocation           *)
(*   val: the value handed to the caller ("" when the call failed; the     *)
(*        callable's error token when ok = FALSE is in err)                *)
(* A failure may be shared by calls that overlap the failing invocation     *)
(* (single-flight implementations do that); what is forbidden is handing a *)
(* failure to a call that began after the failing call had returned.       *)
(* Sound for any logging order consistent with happens-before: Invoke is   *)
(* logged inside the callable, Return after once() returned.               *)
(***************************************************************************)
EXTENDS Integers, Sequences, FiniteSets, TLC, SequencesExt

MonInit(c) == [ cfg |-> c,
                okTok  |-> [k \in {} |-> ""],   \* key -> token of the first successful invocation
                okCnt  |-> [k \in {} |-> 0],
                failTok|-> {},                  \* tokens of failed invocations
                inv    |-> [x \in {} |-> ""],   \* caller -> token of its invocation inside the current call ("" none)
                invOk  |-> [x \in {} |-> FALSE],
                doneFail |-> {},                \* failed tokens whose invoking call has returned
                stale  |-> [x \in {} |-> {}],   \* caller -> doneFail when its current call began
                n |-> 0, viol |-> {} ]

LOCAL V(m, what, key) == [m EXCEPT !.viol = @ \cup {[prop |-> "C20", what |-> what, key |-> key, at |-> m.n + 1]}]
LOCAL VIf(m, cond, what, key) == IF cond THEN V(m, what, key) ELSE m
LOCAL Get(f, x, d) == IF x \in DOMAIN f THEN f[x] ELSE d
LOCAL Put(f, x, v) == [y \in DOMAIN f \cup {x} |-> IF y = x THEN v ELSE f[y]]

LOCAL OnCall(e, m) == [m EXCEPT !.inv = Put(@, e.c, ""), !.invOk = Put(@, e.c, FALSE), !.stale = Put(@, e.c, m.doneFail)]

LOCAL OnInvoke(e, m) ==
    LET m1 == [m EXCEPT !.inv = Put(@, e.c, e.tok), !.invOk = Put(@, e.c, e.ok)] IN
    IF e.ok
    THEN LET cnt == Get(m.okCnt, e.key, 0)
             m2 == [m1 EXCEPT !.okCnt = Put(@, e.key, cnt + 1),
                              !.okTok = IF cnt = 0 THEN Put(@, e.key, e.tok) ELSE @]
         IN VIf(m2, cnt >= 1, "callable invoked again for a key that was already computed successfully", e.key)
    ELSE [m1 EXCEPT !.failTok = @ \cup {e.tok}]

LOCAL OnReturn(e, m) ==
    LET mine == Get(m.inv, e.c, "")
        mineOk == Get(m.invOk, e.c, FALSE) IN
    IF e.ok
    THEN LET m1 == VIf(m, e.val \in m.failTok \/ (e.key \notin DOMAIN m.okTok),
                       "call succeeded with a value no successful invocation produced", e.key)
             m2 == VIf(m1, e.key \in DOMAIN m.okTok /\ e.val # m.okTok[e.key] /\ e.val \notin m.failTok,
                       "callers of one key received different values", e.key)
         IN VIf(m2, mine # "" /\ ~mineOk, "call reported success although its own invocation failed", e.key)
    ELSE LET m1 == VIf(m, e.val \notin m.failTok, "failing call did not return the error of a failed invocation", e.key)
             m2 == VIf(m1, e.val \in Get(m.stale, e.c, {}), "a failure was cached: a later call received it without retrying", e.key)
             m3 == VIf(m2, mine # "" /\ mineOk, "call failed although its own invocation succeeded", e.key)
         IN [m3 EXCEPT !.doneFail = IF mine = e.val THEN @ \cup {e.val} ELSE @]

Mon(e, m0) ==
    LET m1 == CASE e.ev = "Call"   -> OnCall(e, m0)
                [] e.ev = "Invoke" -> OnInvoke(e, m0)
                [] e.ev = "Return" -> OnReturn(e, m0)
                [] e.ev = "Hang"   -> V(m0, "once() did not return", "")
                [] e.ev = "Panic"  -> V(m0, "once() panicked", "")
                [] OTHER -> m0
    IN [m1 EXCEPT !.n = @ + 1]

RunMon(c, es) == FoldLeft(LAMBDA m, e : Mon(e, m), MonInit(c), es)
=============================================================================
