SPECIFICATION GenSpec
CONSTANTS Cfgs <- GenCfgs
INVARIANTS NoViolation
CHECK_DEADLOCK FALSE
