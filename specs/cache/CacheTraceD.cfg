SPECIFICATION TSpec
CONSTANTS Cfgs = {}
INVARIANTS Done DInvariants
CHECK_DEADLOCK FALSE
