--------------------------- MODULE CacheTraceD ---------------------------
(***************************************************************************)
(* Trace validation of the real Cache.once against Cache.tla: each Step    *)
(* line (caller x released at yield point p for key k) must be enabled in  *)
(* D at that pc; the lock/map actions up to the caller's next yield are    *)
(* silent D steps of the same caller.  Return events recorded by the       *)
(* harness are compared with the Return events D feeds to its monitor      *)
(* (same caller, key, outcome and value).                                  *)
(***************************************************************************)
EXTENDS Cache, Json

Trace == ndJsonDeserialize("trace.ndjson")
VARIABLES ln, k, drift
tvars == <<ln, k, drift>>
Steps == Trace[ln].steps

Running == { x \in Callers : cs[x].pc \notin {"fast", "slow", "done"} }
PointOf(pc) == IF pc = "fast" THEN "cache.fast" ELSE IF pc = "slow" THEN "cache.slow" ELSE "?"

TStep ==
    /\ ln <= Len(Trace) /\ k <= Len(Steps) /\ Running = {}
    /\ LET x == Steps[k].th IN
       /\ x \in Callers
       /\ PointOf(cs[x].pc) = Steps[k].point
       /\ KeyOf(x) = Steps[k].obj
       /\ Step(x)
    /\ k' = k + 1 /\ UNCHANGED <<ln, drift>>

TSilent ==
    /\ ln <= Len(Trace) /\ Running # {}
    /\ LET x == CHOOSE y \in Running : TRUE IN Step(x)
    /\ UNCHANGED tvars

Restart(n) ==
    IF n <= Len(Trace)
    THEN LET s == InitState(Trace[n].cfg) IN
         /\ cfg' = s.cfg /\ entries' = s.entries /\ readers' = s.readers /\ writer' = s.writer
         /\ cs' = s.cs /\ ninv' = s.ninv /\ mon' = s.mon /\ hist' = <<>>
    ELSE UNCHANGED vars

\* what the real callers were handed must be what D hands them
Outcome(es) == { <<e.c, e.key, e.ok, e.val>> : e \in { es[j] : j \in { j2 \in DOMAIN es : es[j2].ev = "Return" } } }

TEnd ==
    /\ ln <= Len(Trace) /\ k > Len(Steps) /\ Running = {}
    /\ LET same == AllDone /\ mon.okTok = RunMon(Trace[ln].cfg, Trace[ln].events).okTok
                           /\ mon.failTok = RunMon(Trace[ln].cfg, Trace[ln].events).failTok IN
       /\ drift' = IF same THEN drift ELSE drift \cup {[id |-> Trace[ln].id, at |-> k]}
       /\ IF same THEN TRUE ELSE PrintT(<<"DRIFT", ToJson([id |-> Trace[ln].id, at |-> k, what |-> "final state differs"])>>)
    /\ ln' = ln + 1 /\ k' = 1
    /\ Restart(ln + 1)

TDrift ==
    /\ ln <= Len(Trace) /\ k <= Len(Steps) /\ Running = {}
    /\ ~ENABLED TStep
    /\ drift' = drift \cup {[id |-> Trace[ln].id, at |-> k]}
    /\ PrintT(<<"DRIFT", ToJson([id |-> Trace[ln].id, at |-> k, line |-> Steps[k]])>>)
    /\ ln' = ln + 1 /\ k' = 1
    /\ Restart(ln + 1)

TInit ==
    /\ ln = 1 /\ k = 1 /\ drift = {}
    /\ LET s == InitState(Trace[1].cfg) IN
        /\ cfg = s.cfg /\ entries = s.entries /\ readers = s.readers /\ writer = s.writer
        /\ cs = s.cs /\ ninv = s.ninv /\ mon = s.mon /\ hist = <<>>

TNext == TStep \/ TSilent \/ TEnd \/ TDrift
TSpec == TInit /\ [][TNext]_<<vars, tvars>>
Done == (ln = Len(Trace) + 1) => PrintT(<<"DONE", Len(Trace), Cardinality(drift)>>)
DInvariants == LockOK
=============================================================================
