------------------------------ MODULE Cache ------------------------------
(***************************************************************************)
(* Design spec D of dawn's Cache.once (cache.go): a string -> value map    *)
(* under a readers/writer lock, with a read-locked fast probe, a           *)
(* write-locked re-probe, the call of the user's callable under the write  *)
(* lock, and the store.  One action per lock operation / map access, so    *)
(* TLC explores every interleaving of the callers, including the ones      *)
(* between the fast probe and the write lock.                              *)
(*                                                                         *)
(* cfg = [ops  : caller -> sequence of keys it asks for, one after another, *)
(*        plan : key -> sequence of BOOLEAN; the n-th invocation of the     *)
(*               callable for that key succeeds iff plan[key][n] (TRUE      *)
(*               beyond the plan)]                                          *)
(* pc: fast (yield cache.fast) -> rlocked -> probed -> slow (yield          *)
(*     cache.slow) -> wlocked -> called/hit -> stored -> (unlock) -> fast   *)
(*     of the next op | done                                               *)
(***************************************************************************)
EXTENDS Integers, Sequences, FiniteSets, TLC, CacheMon

CONSTANTS Cfgs

VARIABLES cfg, entries, readers, writer, cs, ninv, mon, hist

vars == <<cfg, entries, readers, writer, cs, ninv, mon, hist>>

Callers == DOMAIN cfg.ops
Keys == DOMAIN cfg.plan
None == "<none>"
Tok(k, n) == k \o "#" \o ToString(n)

InitState(c) ==
    [ cfg |-> c,
      entries |-> [k \in DOMAIN c.plan |-> None],
      readers |-> {},
      writer  |-> None,
      cs      |-> [x \in DOMAIN c.ops |-> [pc |-> IF c.ops[x] = <<>> THEN "done" ELSE "fast", op |-> 1, hit |-> None, ret |-> None]],
      ninv    |-> [k \in DOMAIN c.plan |-> 0],
      mon     |-> MonInit(c) ]

Init == \E c \in Cfgs : LET s == InitState(c) IN
    /\ cfg = s.cfg /\ entries = s.entries /\ readers = s.readers /\ writer = s.writer
    /\ cs = s.cs /\ ninv = s.ninv /\ mon = s.mon /\ hist = <<>>

RECURSIVE Feed(_, _)
Feed(m, es) == IF es = <<>> THEN m ELSE Feed(Mon(Head(es), m), Tail(es))

KeyOf(x) == cfg.ops[x][cs[x].op]

\* finish the current call of x with the given Return event and move on
Finish(x, ok, val) ==
    /\ mon' = Feed(mon, << [ev |-> "Return", c |-> x, key |-> KeyOf(x), ok |-> ok, val |-> val] >>)
    /\ cs' = [cs EXCEPT ![x].pc = IF cs[x].op < Len(cfg.ops[x]) THEN "fast" ELSE "done",
                        ![x].op = IF cs[x].op < Len(cfg.ops[x]) THEN @ + 1 ELSE @,
                        ![x].hit = None]

RLock(x) ==
    /\ cs[x].pc = "fast" /\ writer = None
    /\ readers' = readers \cup {x}
    /\ cs' = [cs EXCEPT ![x].pc = "rlocked"]
    /\ mon' = Feed(mon, << [ev |-> "Call", c |-> x, key |-> KeyOf(x)] >>)
    /\ UNCHANGED <<cfg, entries, writer, ninv>>

FastProbe(x) ==
    /\ cs[x].pc = "rlocked"
    /\ cs' = [cs EXCEPT ![x].pc = "probed", ![x].hit = entries[KeyOf(x)]]
    /\ UNCHANGED <<cfg, entries, readers, writer, ninv, mon>>

RUnlock(x) ==
    /\ cs[x].pc = "probed"
    /\ readers' = readers \ {x}
    /\ IF cs[x].hit # None
       THEN Finish(x, TRUE, cs[x].hit)
       ELSE cs' = [cs EXCEPT ![x].pc = "slow"] /\ mon' = mon
    /\ UNCHANGED <<cfg, entries, writer, ninv>>

WLock(x) ==
    /\ cs[x].pc = "slow" /\ writer = None /\ readers = {}
    /\ writer' = x
    /\ cs' = [cs EXCEPT ![x].pc = "wlocked"]
    /\ UNCHANGED <<cfg, entries, readers, ninv, mon>>

\* re-probe under the write lock; on a miss call the callable (still under the lock)
Recheck(x) ==
    /\ cs[x].pc = "wlocked"
    /\ LET k == KeyOf(x) IN
       IF entries[k] # None
       THEN /\ cs' = [cs EXCEPT ![x].pc = "unlock", ![x].ret = entries[k], ![x].hit = "ok"]
            /\ UNCHANGED <<ninv, mon, entries>>
       ELSE LET n == ninv[k] + 1
                ok == IF n <= Len(cfg.plan[k]) THEN cfg.plan[k][n] ELSE TRUE
            IN /\ ninv' = [ninv EXCEPT ![k] = n]
               /\ mon' = Feed(mon, << [ev |-> "Invoke", c |-> x, key |-> k, tok |-> Tok(k, n), ok |-> ok] >>)
               /\ entries' = IF ok THEN [entries EXCEPT ![k] = Tok(k, n)] ELSE entries
               /\ cs' = [cs EXCEPT ![x].pc = "unlock", ![x].ret = Tok(k, n), ![x].hit = IF ok THEN "ok" ELSE "fail"]
    /\ UNCHANGED <<cfg, readers, writer>>

WUnlock(x) ==
    /\ cs[x].pc = "unlock"
    /\ writer' = None
    /\ Finish(x, cs[x].hit = "ok", cs[x].ret)
    /\ UNCHANGED <<cfg, entries, readers, ninv>>

StepOf(x) == RLock(x) \/ FastProbe(x) \/ RUnlock(x) \/ WLock(x) \/ Recheck(x) \/ WUnlock(x)

\* hist records the releases of the controlled scheduler: a thread leaving a yield
Step(x) == StepOf(x) /\ hist' = IF cs[x].pc \in {"fast", "slow"} THEN Append(hist, x) ELSE hist

AllDone == \A x \in Callers : cs[x].pc = "done"

Next == (\E x \in Callers : Step(x)) \/ (AllDone /\ UNCHANGED vars)

Spec == Init /\ [][Next]_vars /\ \A x \in {"c1", "c2", "c3", "c4"} : WF_vars(x \in Callers /\ Step(x))

NoViolation == mon.viol = {}
LockOK == /\ (writer # None => readers = {})
          /\ \A x \in Callers : (cs[x].pc \in {"rlocked", "probed"}) <=> (x \in readers)
          /\ \A x \in Callers : (cs[x].pc \in {"wlocked", "unlock"}) <=> (writer = x)
\* a stored value is the token of a successful invocation and never changes
StoredOnce == [][\A k \in Keys : entries[k] # None => entries'[k] = entries[k]]_vars
Termination == <>AllDone
View == <<cfg, entries, readers, writer, cs, ninv, mon.viol, mon.okTok, mon.okCnt, mon.failTok, mon.inv, mon.invOk>>
=============================================================================
