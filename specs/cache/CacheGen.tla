----------------------------- MODULE CacheGen -----------------------------
(* Prints the release schedule of every complete behaviour of Cache.tla in which a
   released caller runs to its next yield (the controlled scheduler's grain). *)
EXTENDS Cache, Json

\* a caller is "running" when it is between two yields
Running == { x \in Callers : cs[x].pc \notin {"fast", "slow", "done"} }
GenStep(x) == (Running = {} \/ x \in Running) /\ Step(x)
GenDone == AllDone /\ PrintT(<<"HIST", ToJson([cfg |-> cfg, h |-> hist])>>) /\ FALSE
GenNext == (\E x \in Callers : GenStep(x)) \/ GenDone
GenSpec == Init /\ [][GenNext]_vars
=============================================================================
