------------------------------ MODULE GlobMon ------------------------------
(***************************************************************************)
(* Monitor for C17.  Events:                                               *)
(*  Match{pats, compiled, results: <<path, matched>>...}  real CompileGlobs *)
(*        on pats and MatchString on every path                            *)
(*  Glob{include, exclude, files, result}   the glob() builtin on a         *)
(*        generated tree: files = all candidate relative paths             *)
(*  Ignore{pats, dirs, loaded, err}   a project loaded with an ignore list: *)
(*        dirs = its package directories, loaded = those whose targets exist*)
(***************************************************************************)
EXTENDS Glob, SequencesExt
MonInit(c) == [n |-> 0, viol |-> {}]
LOCAL V(m, what, x) == [m EXCEPT !.viol = @ \cup {[prop |-> "C17", what |-> what, x |-> x, at |-> m.n + 1]}]
LOCAL OnMatch(e, m) ==
    LET wf == \A i \in DOMAIN e.pats : WellFormed(e.pats[i]) IN
    IF ~e.compiled THEN (IF wf THEN V(m, "a well-formed pattern list did not compile", e.pats) ELSE m)
    ELSE IF ~wf THEN m   \* the statement does not say what a malformed escape means
    ELSE LET bad == { i \in DOMAIN e.results : e.results[i][2] # SetMatches(e.pats, e.results[i][1]) } IN
         IF bad = {} THEN m
         ELSE LET i == CHOOSE j \in bad : \A k \in bad : j <= k IN
              V(m, IF e.results[i][2] THEN "path matched although no pattern of the set matches the whole path"
                   ELSE "path not matched although a pattern of the set matches it", <<e.pats, e.results[i][1]>>)
LOCAL OnGlob(e, m) ==
    LET want == { f \in ToSet(e.files) : SetMatches(e.include, f) /\ ~SetMatches(e.exclude, f) } IN
    IF want = ToSet(e.result) THEN m
    ELSE V(m, "glob() did not select exactly the files matching include and not exclude", <<e.include, e.exclude>>)
\* ignore list: a package directory is loaded iff neither it nor a directory above it (the
\* root included) matches the set - the loader does not descend into an ignored directory
LOCAL DirPrefixes(d) == {""} \cup { SubSeq(d, 1, i) : i \in { j \in 1..Len(d) : j = Len(d) \/ SubSeq(d, j + 1, j + 1) = "/" } }
LOCAL OnIgnore(e, m) ==
    IF e.err # "" THEN V(m, "loading a project with an ignore list failed", e.pats)
    ELSE LET want == { d \in ToSet(e.dirs) : \A p \in DirPrefixes(d) : ~SetMatches(e.pats, p) } IN
         IF want = ToSet(e.loaded) THEN m
         ELSE V(m, "the ignore list did not exclude exactly the directories its patterns match", e.pats)

Mon(e, m0) ==
    LET m1 == CASE e.ev = "Match" -> OnMatch(e, m0) [] e.ev = "Glob" -> OnGlob(e, m0) [] e.ev = "Ignore" -> OnIgnore(e, m0) [] OTHER -> m0
    IN [m1 EXCEPT !.n = @ + 1]
RunMon(c, es) == FoldLeft(LAMBDA m, e : Mon(e, m), MonInit(c), es)
=============================================================================
