------------------------------ MODULE GlobMC ------------------------------
(* TLC checks that the two definitions of matching agree on every (pattern, path) of the
   scope, and that a pattern set matches exactly when one of its members does under both. *)
EXTENDS Glob
CONSTANTS PLen, SLen
PatAlpha == {"a", "b", "/", ".", "*", "?", "\\", "+"}
PathAlpha == {"a", "b", ".", "/", "\\"}
RECURSIVE Strs(_, _)
Strs(A, n) == IF n = 0 THEN {""} ELSE LET S == Strs(A, n - 1) IN S \cup { s \o c : s \in { x \in S : Len(x) = n - 1 }, c \in A }
VARIABLES p, s
Init == p \in Strs(PatAlpha, PLen) /\ s \in (Strs(PathAlpha, SLen) \ {""})
Next == UNCHANGED <<p, s>>
Spec == Init /\ [][Next]_<<p, s>>
Agree == Matches(p, s) = MatchesNFA(p, s)
=============================================================================
