------------------------------- MODULE Glob -------------------------------
(***************************************************************************)
(* Reference definition of dawn's glob sets (util/glob.go, used by ignore  *)
(* lists, the glob() builtin and os.glob).                                 *)
(*                                                                         *)
(* A pattern is a string over the glob alphabet; Tokens(p) scans it into   *)
(*   [k |-> "star"]      *   any run of non-separator characters           *)
(*   [k |-> "dstar"]     **  any run of characters                         *)
(*   [k |-> "any"]       ?   one character                                 *)
(*   [k |-> "lit", c]    any other character, or an escaped metacharacter  *)
(* or fails (a backslash at the end or before a non-metacharacter).        *)
(*                                                                         *)
(* Two definitions of "pattern matches the whole path" are given and       *)
(* cross-checked by TLC: a declarative recursive one and a position-set    *)
(* automaton that consumes the path one character at a time (the state     *)
(* machine a regexp engine runs).  A set of patterns matches a path iff    *)
(* some member matches it.                                                 *)
(***************************************************************************)
EXTENDS Integers, Sequences, FiniteSets, TLC

Chars(s) == [i \in 1..Len(s) |-> SubSeq(s, i, i)]
Meta == {"\\", "*", "?", "[", "]"}
Bad == <<[k |-> "bad"]>>

RECURSIVE Scan(_, _)
Scan(cs, i) ==
    IF i > Len(cs) THEN <<>>
    ELSE LET c == cs[i] IN
         IF c = "\\"
         THEN IF i = Len(cs) \/ cs[i + 1] \notin Meta THEN Bad
              ELSE LET r == Scan(cs, i + 2) IN IF r = Bad THEN Bad ELSE <<[k |-> "lit", c |-> cs[i + 1]]>> \o r
         ELSE IF c = "*"
         THEN IF i < Len(cs) /\ cs[i + 1] = "*"
              THEN LET r == Scan(cs, i + 2) IN IF r = Bad THEN Bad ELSE <<[k |-> "dstar"]>> \o r
              ELSE LET r == Scan(cs, i + 1) IN IF r = Bad THEN Bad ELSE <<[k |-> "star"]>> \o r
         ELSE LET r == Scan(cs, i + 1) IN
              IF r = Bad THEN Bad ELSE <<(IF c = "?" THEN [k |-> "any"] ELSE [k |-> "lit", c |-> c])>> \o r

Tokens(p) == Scan(Chars(p), 1)
WellFormed(p) == Tokens(p) # Bad

\* declarative: does toks[i..] match path[j..] ?
RECURSIVE M(_, _, _, _)
M(toks, i, path, j) ==
    IF i > Len(toks) THEN j > Len(path)
    ELSE LET t == toks[i] IN
         CASE t.k = "lit"   -> j <= Len(path) /\ path[j] = t.c /\ M(toks, i + 1, path, j + 1)
           [] t.k = "any"   -> j <= Len(path) /\ M(toks, i + 1, path, j + 1)
           [] t.k = "star"  -> M(toks, i + 1, path, j) \/ (j <= Len(path) /\ path[j] # "/" /\ M(toks, i, path, j + 1))
           [] t.k = "dstar" -> M(toks, i + 1, path, j) \/ (j <= Len(path) /\ M(toks, i, path, j + 1))

Matches(p, path) == LET toks == Tokens(p) IN toks # Bad /\ M(toks, 1, Chars(path), 1)

\* automaton: set of token positions (1..Len+1) reachable after each character
RECURSIVE Close(_, _)
Close(toks, S) ==  \* epsilon closure: a star/dstar may match the empty run
    LET nx == S \cup { i + 1 : i \in { x \in S : x <= Len(toks) /\ toks[x].k \in {"star", "dstar"} } } IN
    IF nx = S THEN S ELSE Close(toks, nx)

StepSet(toks, S, c) ==
    Close(toks, { i + 1 : i \in { x \in S : x <= Len(toks) /\ (toks[x].k = "any" \/ (toks[x].k = "lit" /\ toks[x].c = c)) } }
                \cup { x \in S : x <= Len(toks) /\ (toks[x].k = "dstar" \/ (toks[x].k = "star" /\ c # "/")) })

RECURSIVE RunNFA(_, _, _, _)
RunNFA(toks, S, path, j) == IF j > Len(path) THEN S ELSE RunNFA(toks, StepSet(toks, S, path[j]), path, j + 1)

MatchesNFA(p, path) == LET toks == Tokens(p) IN
    toks # Bad /\ (Len(toks) + 1) \in RunNFA(toks, Close(toks, {1}), Chars(path), 1)

SetMatches(pats, path) == \E i \in DOMAIN pats : Matches(pats[i], path)
=============================================================================
