------------------------------ MODULE LabelMC ------------------------------
EXTENDS LabelGrammar
CONSTANT MaxLen
Alpha == {"a", "b", "/", ":", ".", "@"}
RECURSIVE Strs(_)
Strs(n) == IF n = 0 THEN {""} ELSE LET S == Strs(n - 1) IN S \cup { s \o c : s \in { x \in S : Len(x) = n - 1 }, c \in Alpha }
VARIABLE s
Init == s \in Strs(MaxLen)
Next == UNCHANGED s
Spec == Init /\ [][Next]_s
Pkgs == {"//", "//a", "//a/b"}
GrammarOK ==
    LET l == Parse(s) IN
    l.ok => /\ (InDomain(l) => RoundTrips(l))
            /\ \A p \in Pkgs : LET r == RelativeTo(l, p) IN (r.ok /\ InDomain(r)) => RoundTrips(r)
=============================================================================
