---------------------------- MODULE LabelGrammar ----------------------------
(***************************************************************************)
(* Reference grammar of dawn labels (label/label.go):                      *)
(*      [kind:][[[project]//]package][:name]                               *)
(* Parse, String (print), Clean, Join and RelativeTo as operators over     *)
(* strings.  A parse result is [ok |-> FALSE] or                           *)
(* [ok |-> TRUE, kind, project, pkg, name].                                *)
(* TLC checks on every string of the scope that the grammar itself has     *)
(* the properties C12 asks for (so a hole in the grammar would show at     *)
(* design level): printing an accepted label that has a name or no kind    *)
(* and parsing it again yields the same label, also after resolving it     *)
(* against a package.                                                      *)
(***************************************************************************)
EXTENDS Integers, Sequences, FiniteSets, TLC, SequencesExt

Ch(s, i) == SubSeq(s, i, i)
HasChar(s, c) == \E i \in 1..Len(s) : Ch(s, i) = c
\* last / first index of c in s (0 if none)
LastIdx(s, c) == IF HasChar(s, c) THEN CHOOSE i \in 1..Len(s) : Ch(s, i) = c /\ \A j \in (i + 1)..Len(s) : Ch(s, j) # c ELSE 0
FirstIdx(s, c) == IF HasChar(s, c) THEN CHOOSE i \in 1..Len(s) : Ch(s, i) = c /\ \A j \in 1..(i - 1) : Ch(s, j) # c ELSE 0
\* first index of "//" in s (0 if none)
FirstDSlash(s) == LET I == { i \in 1..(Len(s) - 1) : Ch(s, i) = "/" /\ Ch(s, i + 1) = "/" } IN
                  IF I = {} THEN 0 ELSE CHOOSE i \in I : \A j \in I : i <= j
StartsWith(s, p) == Len(s) >= Len(p) /\ SubSeq(s, 1, Len(p)) = p

\* split on "/" into elements (empty elements included)
RECURSIVE SplitSlash(_, _, _)
SplitSlash(s, i, cur) == IF i > Len(s) THEN <<cur>>
                         ELSE IF Ch(s, i) = "/" THEN <<cur>> \o SplitSlash(s, i + 1, "")
                         ELSE SplitSlash(s, i + 1, cur \o Ch(s, i))
RECURSIVE JoinSlash(_)
JoinSlash(es) == IF es = <<>> THEN "" ELSE IF Len(es) = 1 THEN es[1] ELSE es[1] \o "/" \o JoinSlash(Tail(es))

\* Clean: [ok, v]
Clean(pkg) ==
    IF pkg = "" THEN [ok |-> TRUE, v |-> ""]
    ELSE LET rooted == StartsWith(pkg, "//")
             body == IF rooted THEN SubSeq(pkg, 3, Len(pkg)) ELSE pkg
             els == SelectSeq(SplitSlash(body, 1, ""), LAMBDA e : e # "") IN
         IF ~rooted /\ Ch(pkg, 1) = "/" THEN [ok |-> FALSE]
         ELSE IF HasChar(body, ":") THEN [ok |-> FALSE]
         ELSE IF \E i \in DOMAIN els : els[i] \in {".", ".."} THEN [ok |-> FALSE]
         ELSE [ok |-> TRUE, v |-> (IF rooted THEN "//" ELSE "") \o JoinSlash(els)]

Parse(raw) ==
    LET nc == LastIdx(raw, ":")
        front == IF nc = 0 THEN raw ELSE SubSeq(raw, 1, nc - 1)
        kc == FirstIdx(front, ":")
        kind == IF kc = 0 THEN "" ELSE SubSeq(front, 1, kc - 1)
        pp == IF kc = 0 THEN front ELSE SubSeq(front, kc + 1, Len(front))
        ds == FirstDSlash(pp)
        project == IF ds = 0 THEN "" ELSE SubSeq(pp, 1, ds - 1)
        pkg0 == IF ds = 0 THEN pp ELSE SubSeq(pp, ds, Len(pp))
        c == Clean(pkg0)
        name == IF nc = 0 THEN "" ELSE SubSeq(raw, nc + 1, Len(raw)) IN
    IF HasChar(project, ":") THEN [ok |-> FALSE]
    ELSE IF ~c.ok THEN [ok |-> FALSE]
    ELSE IF HasChar(name, "/") THEN [ok |-> FALSE]
    ELSE IF project # "" /\ ~StartsWith(c.v, "//") THEN [ok |-> FALSE]
    ELSE [ok |-> TRUE, kind |-> kind, project |-> project, pkg |-> c.v, name |-> name]

Show(l) == (IF l.kind # "" THEN l.kind \o ":" ELSE "") \o l.project \o l.pkg \o (IF l.name # "" THEN ":" \o l.name ELSE "")

Join2(a, b) == IF a = "" /\ b = "" THEN [ok |-> TRUE, v |-> ""]
               ELSE IF a = "" THEN Clean(b) ELSE IF b = "" THEN Clean(a) ELSE Clean(a \o "/" \o b)

RelativeTo(l, pkg) ==
    IF StartsWith(l.pkg, "//") THEN l
    ELSE LET j == Join2(pkg, l.pkg) IN
         IF ~j.ok THEN [ok |-> FALSE] ELSE [l EXCEPT !.pkg = j.v]

InDomain(l) == l.name # "" \/ l.kind = ""
RoundTrips(l) == Parse(Show(l)) = l

\* ---- confinement of source paths: a little depth-counter machine -----------------------
\* walks the components of a slash-separated path; FALSE if it ever climbs above its start
RECURSIVE Confined(_, _, _)
Confined(els, i, depth) ==
    IF i > Len(els) THEN TRUE
    ELSE IF els[i] \in {"", "."} THEN Confined(els, i + 1, depth)
    ELSE IF els[i] = ".." THEN (depth > 0 /\ Confined(els, i + 1, depth - 1))
    ELSE Confined(els, i + 1, depth + 1)
StaysInside(path) == Confined(SplitSlash(path, 1, ""), 1, 0)
=============================================================================
