------------------------------ MODULE LabelMon ------------------------------
(***************************************************************************)
(* Monitor for C12, over logged calls of the real functions:               *)
(*  Parse{s, outcome, l, printed, re}   label.Parse(s); if accepted, its    *)
(*        String() and the result of parsing that again (re: {outcome, l}) *)
(*  Rel{l, pkg, outcome, r, printed, re}  l.RelativeTo(pkg) and the same    *)
(*        print/parse round for the result                                 *)
(*  SrcPath{pkg, path, fn, outcome, result}  repoSourcePath / sourceLabel   *)
(*  RecPath{a, b, pa, pb}   record paths derived from two different labels  *)
(* outcome in ok | error | panic.  The reference grammar's verdict on the  *)
(* same string is compared too (drift only).                               *)
(***************************************************************************)
EXTENDS LabelGrammar
MonInit(c) == [n |-> 0, viol |-> {}, drift |-> {}]
LOCAL V(m, what, x) == [m EXCEPT !.viol = @ \cup {[prop |-> "C12", what |-> what, x |-> x, at |-> m.n + 1]}]
LOCAL VIf(m, c, what, x) == IF c THEN V(m, what, x) ELSE m
LOCAL InDom(l) == l.name # "" \/ l.kind = ""
LOCAL RoundOK(l, re) == re.outcome = "ok" /\ re.l = l

LOCAL OnParse(e, m) ==
    IF e.outcome = "panic" THEN V(m, "Parse panicked", e.s)
    ELSE LET m1 == IF e.outcome = "ok" /\ InDom(e.l) /\ ~RoundOK(e.l, e.re)
                   THEN V(m, "printing an accepted label and parsing it again does not yield the same label", e.s) ELSE m
             ref == Parse(e.s)
             same == IF e.outcome = "ok" THEN ref.ok /\ [kind |-> ref.kind, project |-> ref.project, pkg |-> ref.pkg, name |-> ref.name] = e.l
                     ELSE ~ref.ok
         IN IF same THEN m1 ELSE [m1 EXCEPT !.drift = @ \cup {m.n + 1}]

LOCAL OnRel(e, m) ==
    IF e.outcome = "panic" THEN V(m, "RelativeTo panicked", e.pkg)
    ELSE VIf(m, e.outcome = "ok" /\ InDom(e.r) /\ ~RoundOK(e.r, e.re),
             "a label resolved against a package does not survive printing and parsing", <<e.l, e.pkg>>)

LOCAL OnSrcPath(e, m) ==
    IF e.outcome = "panic" THEN V(m, "source path resolution panicked", <<e.pkg, e.path>>)
    ELSE LET m1 == VIf(m, e.outcome = "ok" /\ ~StaysInside(e.result), "a source or generated-file path resolves to a location outside the project root", <<e.pkg, e.path, e.result>>)
         IN VIf(m1, e.outcome = "ok" /\ "l" \in DOMAIN e /\ InDom(e.l) /\ ~RoundOK(e.l, e.re),
                "the label of a source path does not survive printing and parsing", <<e.pkg, e.path>>)

LOCAL OnRecPath(e, m) ==
    VIf(m, e.a # e.b /\ e.pa = e.pb, "two different labels share one record path", <<e.a, e.b>>)

Mon(e, m0) ==
    LET m1 == CASE e.ev = "Parse" -> OnParse(e, m0) [] e.ev = "Rel" -> OnRel(e, m0)
                [] e.ev = "SrcPath" -> OnSrcPath(e, m0) [] e.ev = "RecPath" -> OnRecPath(e, m0) [] OTHER -> m0
    IN [m1 EXCEPT !.n = @ + 1]
RunMon(c, es) == FoldLeft(LAMBDA m, e : Mon(e, m), MonInit(c), es)
=============================================================================
