---------------------------- MODULE LabelTraceP ----------------------------
EXTENDS Json, LabelMon
Trace == ndJsonDeserialize("trace.ndjson")
VARIABLES i, nviol
Init == i = 1 /\ nviol = 0
Next == /\ i <= Len(Trace)
        /\ LET r == RunMon(<<>>, Trace[i].events) IN
           /\ IF r.viol = {} THEN TRUE ELSE PrintT(<<"VIOL", ToJson([id |-> Trace[i].id, viol |-> r.viol])>>)
           /\ IF r.drift = {} THEN TRUE ELSE PrintT(<<"DRIFT", ToJson([id |-> Trace[i].id, at |-> r.drift])>>)
           /\ nviol' = nviol + Cardinality(r.viol)
        /\ i' = i + 1
Spec == Init /\ [][Next]_<<i, nviol>>
Done == (i = Len(Trace) + 1) => PrintT(<<"DONE", Len(Trace), nviol>>)
=============================================================================
