------------------------------ MODULE DiffMon ------------------------------
(* Monitor for C16.  Events: Diff{old, new, res, err, has}: one real diff.Diff(old, new);
   res in the EditGraph result form; has: sequence of <<key, bool>> (MappingDiff.Has). *)
EXTENDS EditGraph
MonInit(c) == [n |-> 0, viol |-> {}]
LOCAL V(m, what) == [m EXCEPT !.viol = @ \cup {[prop |-> "C16", what |-> what, at |-> m.n + 1]}]
LOCAL OnDiff(e, m) ==
    IF e.err # "" THEN V(m, "Diff failed: " \o SubSeq(e.err, 1, IF Len(e.err) < 5 THEN Len(e.err) ELSE 5))
    ELSE IF e.old = e.new THEN (IF e.res.k = "none" THEN m ELSE V(m, "non-empty diff of equal values"))
    ELSE IF e.res.k = "none" THEN V(m, "empty diff of different values")
    ELSE IF e.res.old # e.old \/ e.res.new # e.new
         THEN V(m, "old/new sides of the diff are not the two values in the order given")
    ELSE IF ~Valid(e.res, e.old, e.new) THEN V(m, "edits do not reproduce both values")
    ELSE IF e.old.t = "dict" /\ e.new.t = "dict" /\ "has" \in DOMAIN e
         THEN LET changed == (Keys(e.old) \ Keys(e.new)) \cup (Keys(e.new) \ Keys(e.old))
                             \cup { k \in Keys(e.old) \cap Keys(e.new) : ValAt(e.old, k) # ValAt(e.new, k) } IN
              IF \E i \in DOMAIN e.has : e.has[i][2] # (e.has[i][1] \in changed)
              THEN V(m, "the diff names a part that did not change, or misses one that did") ELSE m
         ELSE m
\* The nine parts of a target's function environment, in the order dawn names them.
EnvParts == <<"names", "constant values", "predeclared values", "universal values", "function values",
              "global values", "default parameter values", "free variables", "code">>
\* Reason{classes, outcome, eq, named, unknown, diffkeys}: classes[i] says how the old and the new
\* environment relate on part i; named = the parts the rebuild reason names (tokenised by the
\* harness), unknown = whatever else it contains, diffkeys = the keys the returned diff has edits for
LOCAL OnReason(e, m) ==
    LET differs == { EnvParts[i] : i \in { j \in 1..Len(EnvParts) : e.classes[j] # "same" } }
        named == { e.named[i] : i \in DOMAIN e.named } IN
    IF e.outcome # "ok" THEN V(m, "comparing two environments failed or panicked")
    ELSE IF differs = {} THEN (IF e.eq THEN m ELSE V(m, "equal environments reported as different"))
    ELSE IF e.eq THEN V(m, "different environments reported as equal")
    ELSE IF named # differs \/ Len(e.named) # Cardinality(named) \/ Len(e.unknown) # 0
         THEN V(m, "the rebuild reason does not name exactly the parts of the environment that differ")
    \* a part that is only written differently ("rewritten": 1 and 1.0) differs, without an edit
    ELSE IF { e.diffkeys[i] : i \in DOMAIN e.diffkeys } #
            { EnvParts[i] : i \in { j \in 1..Len(EnvParts) : e.classes[j] \notin {"same", "rewritten"} } }
         THEN V(m, "the environment diff does not have an edit exactly for the parts that differ")
    ELSE m
\* RealReason{differ, eq, named, unknown, outcome}: the same clause on the environments of two real
\* definitions of one function; differ = the top-level parts that differ (measured by the harness)
LOCAL OnRealReason(e, m) ==
    LET differs == { e.differ[i] : i \in DOMAIN e.differ }
        named == { e.named[i] : i \in DOMAIN e.named } IN
    IF e.outcome # "ok" THEN V(m, "comparing two environments failed or panicked")
    ELSE IF differs = {} THEN (IF e.eq THEN m ELSE V(m, "equal environments reported as different"))
    ELSE IF e.eq THEN V(m, "different environments reported as equal")
    ELSE IF named # differs \/ Len(e.named) # Cardinality(named) \/ Len(e.unknown) # 0
         THEN V(m, "the rebuild reason does not name exactly the parts of the environment that differ")
    ELSE m
Mon(e, m0) == LET m1 == IF e.ev = "Diff" THEN OnDiff(e, m0) ELSE IF e.ev = "Reason" THEN OnReason(e, m0)
                        ELSE IF e.ev = "RealReason" THEN OnRealReason(e, m0) ELSE m0
              IN [m1 EXCEPT !.n = @ + 1]
RunMon(c, es) == FoldLeft(LAMBDA m, e : Mon(e, m), MonInit(c), es)
=============================================================================
