----------------------------- MODULE EditGraph -----------------------------
(***************************************************************************)
(* Reference acceptor for dawn's diffs (diff/diff.go, diff_slice.go).      *)
(*                                                                         *)
(* Values: [t: "str"|"bytes", v: string]  (sequences of characters),       *)
(*         [t: "tuple"|"list", items: sequence of values],                 *)
(*         [t: "dict", items: sequence of <<key, value>>],                 *)
(*         [t: "int"|"none"|..., v] atoms.                                 *)
(* A diff result is [k: "none"] (no difference), [k: "literal", old, new], *)
(* [k: "slice", old, new, edits] with edits a sequence of                  *)
(*    [kind: "common"|"delete"|"add", vals: value] or                      *)
(*    [kind: "replace", diffs: sequence of results]                        *)
(* or [k: "mapping", old, new, edits: sequence of <<key, edit>>] with      *)
(*    edit = [kind: "delete"|"add", val] | [kind: "replace", diff].        *)
(*                                                                         *)
(* An edit script is a walk in the edit graph of (old, new): the state is  *)
(* the pair of positions (i, j); every edit must describe the elements     *)
(* actually found at those positions; the script is accepted iff it ends   *)
(* at (Len(old), Len(new)).  Accepted scripts are exactly those from which *)
(* both values can be reconstructed.                                       *)
(***************************************************************************)
EXTENDS Integers, Sequences, FiniteSets, TLC, SequencesExt

IsSeqVal(v) == v.t \in {"str", "bytes", "tuple", "list"}
IsText(v) == v.t \in {"str", "bytes"}
\* elements of a sequence value
Elems(v) == IF IsText(v) THEN [i \in 1..Len(v.v) |-> [t |-> v.t, v |-> SubSeq(v.v, i, i)]] ELSE v.items
SLen(v) == IF IsText(v) THEN Len(v.v) ELSE Len(v.items)
\* the slice of n elements after position i, as a value of the same type
SliceOf(v, i, n) == IF IsText(v) THEN [t |-> v.t, v |-> SubSeq(v.v, i + 1, i + n)]
                    ELSE [t |-> v.t, items |-> SubSeq(v.items, i + 1, i + n)]
\* slices are compared by their elements (an edit's values may be a tuple copy of a list slice)
SameElems(a, b) == Elems(a) = Elems(b)

Keys(d) == { d.items[i][1] : i \in DOMAIN d.items }
ValAt(d, k) == LET i == CHOOSE j \in DOMAIN d.items : d.items[j][1] = k IN d.items[i][2]

RECURSIVE Valid(_, _, _), WalkEdits(_, _, _, _, _), ValidDiffs(_, _, _, _, _, _)

\* position reached by the script from (i, j), or <<-1, -1>> if an edit does not fit
WalkEdits(old, new, edits, k, pos) ==
    IF k > Len(edits) \/ pos[1] < 0 THEN pos
    ELSE LET e == edits[k]
             i == pos[1]
             j == pos[2]
             bad == <<-1, -1>>
             nxt ==
               CASE e.kind = "common" ->
                        LET n == SLen(e.vals) IN
                        IF i + n <= SLen(old) /\ j + n <= SLen(new) /\ SameElems(e.vals, SliceOf(old, i, n)) /\ SameElems(e.vals, SliceOf(new, j, n))
                        THEN <<i + n, j + n>> ELSE bad
                 [] e.kind = "delete" ->
                        LET n == SLen(e.vals) IN
                        IF i + n <= SLen(old) /\ SameElems(e.vals, SliceOf(old, i, n)) THEN <<i + n, j>> ELSE bad
                 [] e.kind = "add" ->
                        LET n == SLen(e.vals) IN
                        IF j + n <= SLen(new) /\ SameElems(e.vals, SliceOf(new, j, n)) THEN <<i, j + n>> ELSE bad
                 [] e.kind = "replace" ->
                        IF IsText(old) /\ IsText(new)
                        THEN \* one literal diff of two runs of equal length
                             IF Len(e.diffs) = 1 /\ e.diffs[1].k = "literal" /\ e.diffs[1].old.t = old.t /\ e.diffs[1].new.t = new.t
                             THEN LET n == Len(e.diffs[1].old.v)
                                      m == Len(e.diffs[1].new.v) IN
                                  IF n = m /\ i + n <= SLen(old) /\ j + m <= SLen(new)
                                     /\ e.diffs[1].old = SliceOf(old, i, n) /\ e.diffs[1].new = SliceOf(new, j, m)
                                  THEN <<i + n, j + m>> ELSE bad
                             ELSE bad
                        ELSE LET n == Len(e.diffs) IN
                             IF i + n <= SLen(old) /\ j + n <= SLen(new) /\ ValidDiffs(old, new, e.diffs, i, j, 1)
                             THEN <<i + n, j + n>> ELSE bad
                 [] OTHER -> bad
         IN WalkEdits(old, new, edits, k + 1, nxt)

\* element-wise replacements: none = equal elements, otherwise a valid nested diff of the two
ValidDiffs(old, new, ds, i, j, k) ==
    IF k > Len(ds) THEN TRUE
    ELSE LET o == Elems(old)[i + k]
             n == Elems(new)[j + k]
             d == ds[k] IN
         /\ IF d.k = "none" THEN o = n ELSE Valid(d, o, n)
         /\ ValidDiffs(old, new, ds, i, j, k + 1)

\* a non-empty diff result is faithful to (old, new), in that order
Valid(d, old, new) ==
    /\ old # new
    /\ d.k # "none"
    /\ d.old = old /\ d.new = new
    /\ CASE d.k = "literal" -> TRUE
         [] d.k = "slice"   -> IsSeqVal(old) /\ IsSeqVal(new)
                               /\ WalkEdits(old, new, d.edits, 1, <<0, 0>>) = <<SLen(old), SLen(new)>>
         [] d.k = "mapping" ->
               /\ old.t = "dict" /\ new.t = "dict"
               /\ LET ek == { d.edits[i][1] : i \in DOMAIN d.edits }
                      changed == (Keys(old) \ Keys(new)) \cup (Keys(new) \ Keys(old))
                                 \cup { k \in Keys(old) \cap Keys(new) : ValAt(old, k) # ValAt(new, k) } IN
                  /\ ek = changed
                  /\ Cardinality(ek) = Len(d.edits)
                  /\ \A i \in DOMAIN d.edits :
                        LET k == d.edits[i][1]
                            e == d.edits[i][2] IN
                        CASE e.kind = "delete"  -> k \in Keys(old) \ Keys(new) /\ e.val = ValAt(old, k)
                          [] e.kind = "add"     -> k \in Keys(new) \ Keys(old) /\ e.val = ValAt(new, k)
                          [] e.kind = "replace" -> k \in Keys(old) \cap Keys(new) /\ Valid(e.diff, ValAt(old, k), ValAt(new, k))
                          [] OTHER -> FALSE
         [] OTHER -> FALSE

\* the property of one Diff(old, new) call
Faithful(res, old, new) == IF old = new THEN res.k = "none" ELSE Valid(res, old, new)

\* the trivial script: delete everything, add everything (always accepted: the acceptor is satisfiable)
Trivial(old, new) == [k |-> "slice", old |-> old, new |-> new,
                      edits |-> (IF SLen(old) > 0 THEN <<[kind |-> "delete", vals |-> old]>> ELSE <<>>)
                                \o (IF SLen(new) > 0 THEN <<[kind |-> "add", vals |-> new]>> ELSE <<>>)]
=============================================================================
