------------------------------- MODULE DiffMC -------------------------------
(* Design-level checks of the acceptor: for every pair of sequences in scope the trivial
   script is accepted, and a script for the swapped pair is not (the acceptor tells the
   two sides apart). *)
EXTENDS EditGraph
CONSTANT MaxLen
Alpha == {"a", "b", "c"}
RECURSIVE Strs(_)
Strs(n) == IF n = 0 THEN {""} ELSE LET S == Strs(n - 1) IN S \cup { s \o c : s \in { x \in S : Len(x) = n - 1 }, c \in Alpha }
VARIABLES o, n
Init == o \in Strs(MaxLen) /\ n \in Strs(MaxLen)
Next == UNCHANGED <<o, n>>
Spec == Init /\ [][Next]_<<o, n>>
OV == [t |-> "str", v |-> o]
NV == [t |-> "str", v |-> n]
Sat == (o # n) => Valid(Trivial(OV, NV), OV, NV)
Sides == (o # n) => ~Valid(Trivial(NV, OV), OV, NV)
=============================================================================
