//go:build verif

package main

// Verification harness for the last clause of property C19: rewriting dawn.toml during tidy
// loses nothing but comments and layout. Configurations with ignore lists, versions and
// requirement names that need quoting are written, `dawn tidy` (the real command) runs on
// them twice, and what the file holds afterwards is logged for the TLA+ monitor. The one
// requirement is served from a module cache under a temporary home, so nothing is fetched.

import (
	"encoding/json"
	"fmt"
	"os"
	"path/filepath"
	"sort"
	"testing"

	"github.com/mitchellh/go-homedir"
	"github.com/pgavlin/dawn/internal/project"
)

func tidyJSON(c *project.Config) map[string]any {
	reqs := [][]string{}
	names := []string{}
	for n := range c.Requirements {
		names = append(names, n)
	}
	sort.Strings(names)
	for _, n := range names {
		reqs = append(reqs, []string{n, c.Requirements[n].Path, c.Requirements[n].Version})
	}
	ign := c.Ignore
	if ign == nil {
		ign = []string{}
	}
	return map[string]any{"name": c.Name, "version": c.Version, "ignore": ign, "reqs": reqs}
}

func TestVerifTidy(t *testing.T) {
	out := os.Getenv("VERIF_OUT")
	if out == "" {
		t.Skip("VERIF_OUT not set")
	}
	home := t.TempDir()
	t.Setenv("HOME", home)
	homedir.DisableCache = true
	defer func() { homedir.DisableCache = false }()
	cached := filepath.Join(home, ".dawn", "modules", "cache", "example.com", "alpha@v1.2.3")
	if err := os.MkdirAll(cached, 0o700); err != nil {
		t.Fatal(err)
	}
	if err := os.WriteFile(filepath.Join(cached, "dawn.toml"), []byte("name = 'alpha'\n"), 0o600); err != nil {
		t.Fatal(err)
	}
	names := []string{"project", "my proj", "it's", `say "hi"`, "a#b", "café"}
	versions := []string{"", "v0.3.0", "1.0"}
	ignores := [][]string{nil, {"**/testdata"}, {"**/testdata", "third_party/**"}, {"out/", "a b", `q"uote`}, {"100%", "x//y"}}
	reqNames := []string{"alpha", "my alpha", "al.pha", `a"b`, "Alpha"}
	var batch []map[string]any
	oldWork := work
	defer func() { work = oldWork }()
	n := 0
	for _, name := range names {
		for _, ign := range ignores {
			n++
			before := &project.Config{Name: name, Version: versions[n%len(versions)], Ignore: ign,
				Requirements: map[string]project.RequirementConfig{reqNames[n%len(reqNames)]: {Path: "example.com/alpha", Version: "v1.2.3"}}}
			root := t.TempDir()
			file := filepath.Join(root, "dawn.toml")
			ev := map[string]any{"ev": "Rewrite", "cmd": "tidy", "before": tidyJSON(before), "after": tidyJSON(&project.Config{}), "again": tidyJSON(&project.Config{}),
				"err": "", "same_bytes": false}
			func() {
				defer func() {
					if p := recover(); p != nil {
						ev["err"] = "panic:" + fmt.Sprint(p)
					}
				}()
				if err := project.WriteConfigFile(file, before); err != nil {
					ev["err"] = "harness-write:" + err.Error()
					return
				}
				work = &workspace{root: root, configFile: "dawn.toml"}
				if err := tidyCmd.RunE(tidyCmd, nil); err != nil {
					ev["err"] = "tidy:" + err.Error()
					return
				}
				after, err := project.LoadConfigFile(file)
				if err != nil {
					ev["err"] = "load:" + err.Error()
					return
				}
				ev["after"] = tidyJSON(after)
				b1, _ := os.ReadFile(file)
				if err := tidyCmd.RunE(tidyCmd, nil); err != nil {
					ev["err"] = "tidy-again:" + err.Error()
					return
				}
				again, err := project.LoadConfigFile(file)
				if err != nil {
					ev["err"] = "load-again:" + err.Error()
					return
				}
				ev["again"] = tidyJSON(again)
				b2, _ := os.ReadFile(file)
				ev["same_bytes"] = string(b1) == string(b2)
			}()
			batch = append(batch, ev)
		}
	}
	of, err := os.OpenFile(out, os.O_APPEND|os.O_CREATE|os.O_WRONLY, 0644)
	if err != nil {
		t.Fatal(err)
	}
	defer of.Close()
	b, _ := json.Marshal(map[string]any{"id": "tidy-0", "events": batch})
	of.Write(append(b, '\n'))
}
