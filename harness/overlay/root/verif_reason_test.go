//go:build verif

package dawn

// Verification harness for the last clause of property C16: the rebuild reason shown for a
// target names exactly the parts of its environment that differ. Each case gives, for every
// one of the nine parts of a function environment, whether the old and the new environment
// agree on it ("same"), hold different values ("changed"), or only one of them has it
// ("added" / "removed"). The real (*function).diffEnv is called on such a pair and the
// reason, tokenised into the parts it names, is logged for the TLA+ monitor.

import (
	"bufio"
	"encoding/json"
	"fmt"
	"os"
	"strings"
	"testing"

	"github.com/pgavlin/dawn/diff"
	"go.starlark.net/starlark"
)

type rCase struct {
	ID      string   `json:"id"`
	Classes []string `json:"classes"`
	Flavor  int      `json:"flavor"`
}

func rValue(flavor, part int, alt bool) starlark.Value { return rValueAs(flavor, part, alt, false) }

// rValueAs writes the number in the value as a float when asFloat is set: the same value
// under ==, written differently (1 and 1.0).
func rValueAs(flavor, part int, alt, asFloat bool) starlark.Value {
	n := int64(part*10 + flavor)
	if alt {
		n += 1000
	}
	var num starlark.Value = starlark.MakeInt64(n)
	if asFloat {
		num = starlark.Float(float64(n))
	}
	switch (flavor + part) % 4 {
	case 0:
		return num
	case 1:
		return starlark.Tuple{starlark.String("x"), num}
	case 2:
		return starlark.NewList([]starlark.Value{num, starlark.String("y")})
	default:
		d := starlark.NewDict(1)
		d.SetKey(starlark.String("k"), num)
		return d
	}
}

func TestVerifReason(t *testing.T) {
	out, cases := os.Getenv("VERIF_OUT"), os.Getenv("VERIF_CASES")
	if out == "" || cases == "" {
		t.Skip("VERIF_OUT / VERIF_CASES not set")
	}
	cf, err := os.Open(cases)
	if err != nil {
		t.Fatal(err)
	}
	defer cf.Close()
	of, err := os.OpenFile(out, os.O_APPEND|os.O_CREATE|os.O_WRONLY, 0644)
	if err != nil {
		t.Fatal(err)
	}
	defer of.Close()
	var batch []map[string]any
	nline := 0
	flush := func(force bool) {
		if len(batch) > 0 && (len(batch) >= 400 || force) {
			b, _ := json.Marshal(map[string]any{"id": fmt.Sprintf("reason-%d", nline), "events": batch})
			of.Write(append(b, '\n'))
			nline++
			batch = nil
		}
	}
	known := map[string]bool{}
	for _, k := range functionEnvKeys {
		known[string(k)] = true
	}
	sc := bufio.NewScanner(cf)
	sc.Buffer(make([]byte, 1<<20), 1<<24)
	for sc.Scan() {
		var c rCase
		if err := json.Unmarshal(sc.Bytes(), &c); err != nil || len(c.Classes) != len(functionEnvKeys) {
			t.Fatalf("bad case %q", sc.Text())
		}
		oldEnv, newEnv := starlark.NewDict(9), starlark.NewDict(9)
		for i, k := range functionEnvKeys {
			switch c.Classes[i] {
			case "same":
				oldEnv.SetKey(k, rValue(c.Flavor, i, false))
				newEnv.SetKey(k, rValue(c.Flavor, i, false))
			case "changed":
				oldEnv.SetKey(k, rValue(c.Flavor, i, false))
				newEnv.SetKey(k, rValue(c.Flavor, i, true))
			case "rewritten":
				// equal values, written differently: not an edit of the structural diff, yet a
				// difference the function can observe
				oldEnv.SetKey(k, rValue(c.Flavor, i, false))
				newEnv.SetKey(k, rValueAs(c.Flavor, i, false, true))
			case "added":
				newEnv.SetKey(k, rValue(c.Flavor, i, false))
			case "removed":
				oldEnv.SetKey(k, rValue(c.Flavor, i, false))
			}
		}
		f := &function{oldEnv: oldEnv, newEnv: newEnv}
		ev := map[string]any{"ev": "Reason", "classes": c.Classes, "outcome": "ok", "eq": false, "reason": "",
			"named": []string{}, "unknown": []string{}, "diffkeys": []string{}}
		func() {
			defer func() {
				if r := recover(); r != nil {
					ev["outcome"] = "panic"
				}
			}()
			eq, reason, d, err := f.diffEnv()
			if err != nil {
				ev["outcome"] = "error"
				return
			}
			ev["eq"], ev["reason"] = eq, reason
			named, unknown := []string{}, []string{}
			if !eq {
				body, ok := strings.CutSuffix(reason, " changed")
				if !ok {
					unknown = append(unknown, reason)
				}
				body = strings.ReplaceAll(body, ", and ", ", ")
				body = strings.ReplaceAll(body, " and ", ", ")
				for _, tok := range strings.Split(body, ", ") {
					if known[tok] {
						named = append(named, tok)
					} else {
						unknown = append(unknown, tok)
					}
				}
			}
			keys := []string{}
			if md, ok := d.(*diff.MappingDiff); ok {
				for _, k := range functionEnvKeys {
					if md.Has(k) {
						keys = append(keys, string(k))
					}
				}
			}
			ev["named"], ev["unknown"], ev["diffkeys"] = named, unknown, keys
		}()
		batch = append(batch, ev)
		flush(false)
	}
	flush(true)

	// the same clause on environments of real functions: pairs of definitions of a function t are
	// compiled, their environments computed by functionEnv and compared by diffEnv; the parts
	// that differ are the top-level keys present on one side only or holding unequal (or
	// differently written) values
	for i, pr := range rPairs {
		ev := map[string]any{"ev": "RealReason", "name": pr[0], "outcome": "ok", "eq": false, "reason": "",
			"named": []string{}, "unknown": []string{}, "differ": []string{}}
		func() {
			defer func() {
				if r := recover(); r != nil {
					ev["outcome"] = "panic"
				}
			}()
			envOf := func(src string) (*starlark.Dict, error) {
				globals, err := starlark.ExecFile(&starlark.Thread{Name: "reason"}, "BUILD.dawn", src, nil)
				if err != nil {
					return nil, err
				}
				fn, ok := globals["t"].(*starlark.Function)
				if !ok {
					return nil, fmt.Errorf("no function t")
				}
				env, err := functionEnv(fn)
				if err != nil {
					return nil, err
				}
				d, ok := env.(*starlark.Dict)
				if !ok {
					return nil, fmt.Errorf("environment is a %s", env.Type())
				}
				return d, nil
			}
			oldEnv, err1 := envOf(pr[1])
			newEnv, err2 := envOf(pr[2])
			if err1 != nil || err2 != nil {
				ev["outcome"] = "harness"
				return
			}
			differ := []string{}
			seen := map[string]bool{}
			for _, env := range []*starlark.Dict{oldEnv, newEnv} {
				for _, k := range env.Keys() {
					name, _ := starlark.AsString(k)
					if seen[name] {
						continue
					}
					seen[name] = true
					ov, inOld, _ := oldEnv.Get(k)
					nv, inNew, _ := newEnv.Get(k)
					d := inOld != inNew
					if !d {
						eq, err := starlark.EqualDepth(ov, nv, 1000)
						d = err != nil || !eq || ov.String() != nv.String()
					}
					if d {
						differ = append(differ, name)
					}
				}
			}
			ev["differ"] = differ
			f := &function{oldEnv: oldEnv, newEnv: newEnv}
			eq, reason, _, err := f.diffEnv()
			if err != nil {
				ev["outcome"] = "error"
				return
			}
			ev["eq"], ev["reason"] = eq, reason
			named, unknown := []string{}, []string{}
			if !eq {
				body, ok := strings.CutSuffix(reason, " changed")
				if !ok {
					unknown = append(unknown, reason)
				}
				body = strings.ReplaceAll(body, ", and ", ", ")
				body = strings.ReplaceAll(body, " and ", ", ")
				for _, tok := range strings.Split(body, ", ") {
					if seen[tok] {
						named = append(named, tok)
					} else {
						unknown = append(unknown, tok)
					}
				}
			}
			ev["named"], ev["unknown"] = named, unknown
		}()
		if ev["outcome"] != "harness" {
			batch = append(batch, ev)
		} else {
			t.Logf("pair %d (%s) does not compile", i, pr[0])
		}
	}
	flush(true)
}

// pairs of definitions of t: name, old text, new text
var rPairs = [][3]string{
	{"same", "def t():\n  return 1\n", "def t():\n  return 1\n"},
	{"constant", "def t():\n  return 1\n", "def t():\n  return 2\n"},
	{"constant-rewritten", "def t():\n  return 1\n", "def t():\n  return 1.0\n"},
	{"global", "x = 1\ndef t():\n  return x\n", "x = 2\ndef t():\n  return x\n"},
	{"global-rewritten", "x = 1\ndef t():\n  return x\n", "x = 1.0\ndef t():\n  return x\n"},
	{"global-and-constant", "x = 1\ndef t():\n  return [x, 'a']\n", "x = 2\ndef t():\n  return [x, 'b']\n"},
	{"global-rewritten-and-constant", "x = 1\ndef t():\n  return [x, 'a']\n", "x = 1.0\ndef t():\n  return [x, 'b']\n"},
	{"default", "def t(a=1):\n  return a\n", "def t(a=2):\n  return a\n"},
	{"default-added", "def t(a):\n  return a\n", "def t(a=2):\n  return a\n"},
	{"free-variable", "def mk(v):\n  def t():\n    return v\n  return t\nt = mk(1)\n", "def mk(v):\n  def t():\n    return v\n  return t\nt = mk(2)\n"},
	{"names", "def t(x):\n  return x.a\n", "def t(x):\n  return x.b\n"},
	{"universal", "def t(x):\n  return len(x)\n", "def t(x):\n  return sorted(x)\n"},
	{"nested-function", "def t():\n  def h():\n    return 1\n  return h()\n", "def t():\n  def h():\n    return 2\n  return h()\n"},
	{"helper-body", "def h():\n  return 1\ndef t():\n  return h()\n", "def h():\n  return 2\ndef t():\n  return h()\n"},
	{"code-only", "def t(a, b):\n  return a + b\n", "def t(a, b):\n  return a - b\n"},
	{"positional-becomes-variadic", "def t(a):\n  pass\n", "def t(*a):\n  pass\n"},
	{"variadic-becomes-keywords", "def t(*a):\n  pass\n", "def t(**a):\n  pass\n"},
	{"parameter-renamed", "def t(a):\n  return a\n", "def t(b):\n  return b\n"},
	{"parameter-becomes-keyword-only", "def t(a, b):\n  pass\n", "def t(a, *, b):\n  pass\n"},
	{"signature-and-body", "def t(a):\n  return 1\n", "def t(*a):\n  return a\n"},
	{"signature-and-constant", "def t(a):\n  return 1\n", "def t(*a):\n  return 2\n"},
	{"signature-and-global", "x = 1\ndef t(a):\n  return x\n", "x = 2\ndef t(*a):\n  return x\n"},
	{"everything", "x = 1\ndef t(a, d=1):\n  return [x, 'a', len(a), a.p]\n", "x = 2\ndef t(*a, d=2):\n  return [x, 'b', sorted(a), a.q]\n"},
}
