//go:build verif

package dawn

// Verification harness for the line writer (part of property C18). Drives the real
// lineWriter with every chunking of every short text over {x, newline}, for one and two
// write...flush rounds, and logs what it delivered to Events.Print.

import (
	"encoding/json"
	"fmt"
	"math/rand"
	"os"
	"strconv"
	"strings"
	"sync"
	"testing"

	"github.com/pgavlin/dawn/label"
)

type lwEvents struct {
	discardEventsT
	lines []string
}

func (e *lwEvents) Print(l *label.Label, line string) { e.lines = append(e.lines, line) }

func lwStrs(n int) []string {
	res := []string{""}
	prev := []string{""}
	for l := 1; l <= n; l++ {
		var cur []string
		for _, s := range prev {
			for _, c := range []string{"x", "\n"} {
				cur = append(cur, s+c)
			}
		}
		res = append(res, cur...)
		prev = cur
	}
	return res
}

func TestVerifLineWriter(t *testing.T) {
	out := os.Getenv("VERIF_OUT")
	if out == "" {
		t.Skip("VERIF_OUT not set")
	}
	maxLen, _ := strconv.Atoi(os.Getenv("VERIF_LW_LEN"))
	if maxLen == 0 {
		maxLen = 3
	}
	seed, _ := strconv.ParseInt(os.Getenv("VERIF_SEED"), 10, 64)
	rnd := rand.New(rand.NewSource(seed + 99))
	of, err := os.OpenFile(out, os.O_APPEND|os.O_CREATE|os.O_WRONLY, 0644)
	if err != nil {
		t.Fatal(err)
	}
	defer of.Close()
	var batch []map[string]any
	nline := 0
	flush := func(force bool) {
		if len(batch) > 0 && (len(batch) >= 300 || force) {
			b, _ := json.Marshal(map[string]any{"id": fmt.Sprintf("lw-%d", nline), "cfg": map[string]any{"targets": map[string]any{}, "sources": []string{}}, "events": batch})
			of.Write(append(b, '\n'))
			nline++
			batch = nil
		}
	}
	var texts [][]string
	s3, s2, s1 := lwStrs(maxLen), lwStrs(maxLen-1), lwStrs(1)
	for _, a := range s3 {
		texts = append(texts, []string{a})
	}
	for _, a := range s3 {
		for _, b := range s2 {
			texts = append(texts, []string{a, b})
		}
	}
	for _, a := range s2 {
		for _, b := range s1 {
			for _, c := range lwStrs(maxLen - 2) {
				texts = append(texts, []string{a, b, c})
			}
		}
	}
	run := func(rounds [][]string) {
		ev := &lwEvents{}
		w := newLineWriter(&label.Label{Package: "//", Name: "t"}, ev)
		func() {
			defer func() {
				if p := recover(); p != nil {
					ev.lines = append(ev.lines, "panic:"+fmt.Sprint(p))
				}
			}()
			for _, r := range rounds {
				for _, c := range r {
					w.Write([]byte(c))
				}
				w.Flush()
			}
		}()
		lines := ev.lines
		if lines == nil {
			lines = []string{}
		}
		batch = append(batch, map[string]any{"ev": "Lines", "rounds": rounds, "printed": lines})
		flush(false)
	}
	for _, a := range texts {
		run([][]string{a})
	}
	// two rounds: every text followed by a seeded selection of second rounds
	for _, a := range texts {
		for k := 0; k < 3; k++ {
			run([][]string{a, texts[rnd.Intn(len(texts))]})
		}
	}
	for i := 0; i < 300; i++ {
		run([][]string{texts[rnd.Intn(len(texts))], texts[rnd.Intn(len(texts))], texts[rnd.Intn(len(texts))]})
	}
	// long lines: texts of one letter with lines of up to 200 000 characters, cut into chunks of
	// many sizes (a child process's output arrives 32 KiB at a time). Logged by length: a chunk
	// is the lengths of its segments between line breaks, a delivered line its length.
	runLens := func(lineLens []int, chunk int, trailingNewline bool) {
		var text []byte
		for i, n := range lineLens {
			text = append(text, []byte(strings.Repeat("x", n))...)
			if i < len(lineLens)-1 || trailingNewline {
				text = append(text, '\n')
			}
		}
		ev := &lwEvents{}
		w := newLineWriter(&label.Label{Package: "//", Name: "t"}, ev)
		var chunks [][]int
		func() {
			defer func() {
				if p := recover(); p != nil {
					ev.lines = append(ev.lines, "panic:"+fmt.Sprint(p))
				}
			}()
			for i := 0; i < len(text); i += chunk {
				c := text[i:min(i+chunk, len(text))]
				segs := []int{}
				for _, part := range strings.Split(string(c), "\n") {
					segs = append(segs, len(part))
				}
				chunks = append(chunks, segs)
				w.Write(c)
			}
			w.Flush()
		}()
		printed := []int{}
		for _, l := range ev.lines {
			printed = append(printed, len(l))
		}
		batch = append(batch, map[string]any{"ev": "LineLens", "rounds": [][][]int{chunks}, "printed": printed})
		flush(false)
	}
	for _, chunk := range []int{1 << 20, 32 << 10, 4096, 65536, 65537, 50000, 100000} {
		for _, lens := range [][]int{{100000}, {65536}, {65535, 1}, {131072, 3}, {70000, 70000}, {3, 200000, 0, 5}, {65536, 65536}} {
			runLens(lens, chunk, true)
			runLens(lens, chunk, false)
		}
	}
	flush(true)
}

// TestVerifLineWriterConcurrent drives one line writer from two goroutines at once: a target's
// standard output and standard error are the same writer, and the two sides of a shell
// pipeline run by sh.exec write to them concurrently. Every writer writes complete lines in
// two chunks each ("a", "a\n"); what was written and what was delivered is counted per letter
// and logged for the monitor.
func TestVerifLineWriterConcurrent(t *testing.T) {
	out := os.Getenv("VERIF_OUT")
	if out == "" {
		t.Skip("VERIF_OUT not set")
	}
	n, _ := strconv.Atoi(os.Getenv("VERIF_LW_PAR"))
	if n == 0 {
		n = 40
	}
	of, err := os.OpenFile(out, os.O_APPEND|os.O_CREATE|os.O_WRONLY, 0644)
	if err != nil {
		t.Fatal(err)
	}
	defer of.Close()
	var batch []map[string]any
	for c := 0; c < n; c++ {
		ev := &lwParEvents{}
		w := newLineWriter(&label.Label{Package: "//", Name: "t"}, ev)
		per := 200 + 400*(c%5)
		var wg sync.WaitGroup
		var pmu sync.Mutex
		panicked := ""
		start := make(chan struct{})
		for _, letter := range []string{"a", "b"} {
			wg.Add(1)
			go func(letter string) {
				defer wg.Done()
				defer func() {
					if p := recover(); p != nil {
						pmu.Lock()
						panicked = fmt.Sprint(p)
						pmu.Unlock()
					}
				}()
				<-start
				for i := 0; i < per; i++ {
					w.Write([]byte(letter))
					w.Write([]byte(letter + "\n"))
				}
			}(letter)
		}
		close(start)
		wg.Wait()
		func() {
			defer func() {
				if p := recover(); p != nil {
					panicked = fmt.Sprint(p)
				}
			}()
			w.Flush()
		}()
		ev.mu.Lock()
		got := map[string]int{"a": 0, "b": 0, "lines": len(ev.lines)}
		for _, l := range ev.lines {
			for _, ch := range l {
				if ch == 'a' || ch == 'b' {
					got[string(ch)]++
				}
			}
		}
		ev.mu.Unlock()
		batch = append(batch, map[string]any{"ev": "LinesPar", "wrote": map[string]int{"a": 2 * per, "b": 2 * per, "lines": 2 * per}, "got": got, "panic": panicked})
	}
	b, _ := json.Marshal(map[string]any{"id": "lwpar-0", "cfg": map[string]any{"targets": map[string]any{}, "sources": []string{}}, "events": batch})
	of.Write(append(b, '\n'))
}

type lwParEvents struct {
	discardEventsT
	mu    sync.Mutex
	lines []string
}

func (e *lwParEvents) Print(l *label.Label, line string) {
	e.mu.Lock()
	e.lines = append(e.lines, line)
	e.mu.Unlock()
}
