//go:build verif

package dawn

// Verification harness for the incremental build machine (properties C01, C02, C03, C13,
// C14 and the event protocol of C18). Added to package dawn at build time with `go test
// -overlay`. A case is a project shape plus a history of edits, builds (real, dry,
// always; with collections, failing bodies and process deaths at named crash points); the
// harness materialises the shape as a real project tree, performs every step with a fresh
// dawn.Load + Run (crashing builds run in a child process), and logs the observable
// events for the TLA+ monitor BuildMon.

import (
	"bufio"
	"crypto/sha256"
	"encoding/hex"
	"encoding/json"
	"errors"
	"fmt"
	"io/fs"
	"math/rand"
	"net/url"
	"os"
	"os/exec"
	"path/filepath"
	"runtime"
	"sort"
	"strings"
	"sync"
	"sync/atomic"
	"testing"
	"time"

	"github.com/pgavlin/dawn/diff"
	"github.com/pgavlin/dawn/internal/zzverif/sched"
	"github.com/pgavlin/dawn/label"
	starlark_os "github.com/pgavlin/dawn/lib/os"
	starlark_sh "github.com/pgavlin/dawn/lib/sh"
	"go.starlark.net/starlark"
)

type bTarget struct {
	Deps   []string `json:"deps"`
	Srcs   []string `json:"srcs"`
	Gens   []string `json:"gens"`
	Always bool     `json:"always"`
	Alt    []string `json:"alt,omitempty"`  // dependencies written with a non-canonical spelling of their label
	Pkg    string   `json:"pkg,omitempty"`  // package directory ("" = root)
	Kind   string   `json:"kind,omitempty"` // how the env atom is referenced
}

type bShape struct {
	Targets map[string]*bTarget `json:"targets"`
	Sources []string            `json:"sources"`
	Dirs    []string            `json:"dirs,omitempty"` // sources that are directories
}

type bCrash struct {
	Point string `json:"point"`
	Label string `json:"label"`
	Hit   int    `json:"hit"`
}

type bStep struct {
	Op    string   `json:"op"`
	T     string   `json:"t,omitempty"`
	S     string   `json:"s,omitempty"`
	Kind  string   `json:"kind,omitempty"`
	Root  string   `json:"root,omitempty"`
	Mode  string   `json:"mode,omitempty"`
	GC    bool     `json:"gc,omitempty"`
	Index bool     `json:"index,omitempty"`
	Fail  []string `json:"fail,omitempty"`
	Crash *bCrash  `json:"crash,omitempty"`
	Clean bool     `json:"clean,omitempty"`
	Rerun bool     `json:"rerun,omitempty"` // run again on the same Project without reloading
	Reuse bool     `json:"reuse,omitempty"` // do not reload: use the Project of the previous build step (REPL session)
	Wreck bool     `json:"wreck,omitempty"` // failing bodies also remove the build state's temp directory (a clean-style target gone wrong)
	Via   string   `json:"via,omitempty"`   // "repl": the build is started with the run() builtin and observed through its callback
	// op "watch": Project.Watch runs on Root while the script edits the tree
	Script []bStep `json:"script,omitempty"`
}

type bCase struct {
	ID     string  `json:"id"`
	Shape  bShape  `json:"shape"`
	Shape2 *bShape `json:"shape2,omitempty"`
	Steps  []bStep `json:"steps"`
	Seed   int64   `json:"seed"`
	Twin   string  `json:"twin,omitempty"` // "gc" | "dry": also run the history without them and compare
	Values string  `json:"values,omitempty"`
}

type bTrace struct {
	ID     string        `json:"id"`
	Cfg    any           `json:"cfg"`
	Steps  []bStep       `json:"steps"`
	Events []sched.Event `json:"events"`
}

// ---- workspace ------------------------------------------------------------------------

type bWorld struct {
	dir         string
	shape       *bShape
	values      string
	envVer      map[string]int // version of every target's env atom
	srcVer      map[string]int // version of every plain source
	unref       map[string]int // version of an unreferenced global per target (non-input)
	comment     int
	rec         *sched.Recorder
	mu          sync.Mutex
	fail        map[string]bool
	execLog     []string
	crash       *bCrash
	hits        map[string]int
	proj        *Project     // the project of the last build step (for session steps)
	evalLogged  sync.Map     // names whose evaluating event has been logged in this build
	wreck       bool         // failing bodies of this build step remove .dawn/build/temp
	viaCallback atomic.Bool  // a build started with run(callback=...) is under way
	inflight    atomic.Int64 // evaluating events without their succeeded/failed yet
	evalSeen    sync.Map
	fixedArgs   []string // child builds: the command line decided by the parent
	// watch mode
	watching  atomic.Bool
	watchRoot string
	inBuild   atomic.Bool
	lastEvent atomic.Int64 // unix nanoseconds of the last logged event
	lastEdit  atomic.Int64
	loadDone  atomic.Int64
	gates     map[string]chan struct{} // armed holds: the next body of that target blocks until released
	held      chan string              // a body reports that it is blocked
}

// value of the env atom of a target at a version, by value class; the sequences straddle
// the encoder's width boundaries
func bValue(class string, ver int) string {
	switch class {
	case "int16":
		seq := []string{"255", "256", "65536", "257", "65537", "65535", "16711935"}
		return seq[(ver-1)%len(seq)]
	case "int32":
		seq := []string{"2147483647", "2147483648", "-2147483648", "-2147483649", "4294967296"}
		return seq[(ver-1)%len(seq)]
	case "str":
		return fmt.Sprintf("%q", strings.Repeat("x", ver*100))
	case "tuple":
		return fmt.Sprintf("(%d, \"a\", [%d, %d])", ver, ver+1, ver*256)
	case "dict":
		return fmt.Sprintf("{\"k\": %d, \"j\": [%d]}", ver, ver*65536)
	case "float":
		return fmt.Sprintf("%d.5", ver)
	case "dictorder":
		// the same mapping written in another order (equal as values, printed differently)
		seq := []string{"{\"a\": 1, \"b\": 2}", "{\"b\": 2, \"a\": 1}", "{\"a\": 1, \"b\": 2, \"c\": 3}", "{\"c\": 3, \"a\": 1, \"b\": 2}"}
		return seq[(ver-1)%len(seq)]
	case "zeropair":
		// values that are equal as Go map keys yet different values: the two zeros side by side
		seq := []string{"(0.0, 0.0)", "(0.0, -0.0)", "(-0.0, -0.0)", "(-0.0, 0.0)", "(0, 0.0, -0.0)", "(0, -0.0, 0.0)"}
		return seq[(ver-1)%len(seq)]
	case "intfloat":
		// the same number as an int and as a float: equal in Starlark, printed differently
		seq := []string{"1", "1.0", "2", "2.0", "0", "-0.0", "3"}
		return seq[(ver-1)%len(seq)]
	default:
		return fmt.Sprintf("%d", ver)
	}
}

func (w *bWorld) pkgDir(t *bTarget) string {
	if t.Pkg == "" {
		return w.dir
	}
	return filepath.Join(w.dir, t.Pkg)
}

// mates returns the other targets defined in the same build file as t.
func (w *bWorld) mates(t string) []string {
	res := []string{}
	tt := w.shape.Targets[t]
	if tt == nil {
		return res
	}
	for n, o := range w.shape.Targets {
		if n != t && o.Pkg == tt.Pkg {
			res = append(res, n)
		}
	}
	sort.Strings(res)
	return res
}

func bContains(xs []string, x string) bool {
	for _, y := range xs {
		if x == y {
			return true
		}
	}
	return false
}

func (w *bWorld) isDir(s string) bool {
	for _, d := range w.shape.Dirs {
		if d == s {
			return true
		}
	}
	return false
}

func (w *bWorld) generatorOf(s string) string {
	for n, t := range w.shape.Targets {
		for _, g := range t.Gens {
			if g == s {
				return n
			}
		}
	}
	return ""
}

// path of a source relative to the project root
func (w *bWorld) srcRel(s string) string {
	if w.generatorOf(s) != "" {
		return "gen/" + s + ".txt"
	}
	if w.isDir(s) {
		return "src/" + s
	}
	return "src/" + s + ".txt"
}

func (w *bWorld) srcPath(s string) string {
	return filepath.Join(w.dir, filepath.FromSlash(w.srcRel(s)))
}

// relative path from a package to a root-relative path
func relFrom(pkg, rel string) string {
	if pkg == "" {
		return rel
	}
	ups := strings.Repeat("../", len(strings.Split(pkg, "/")))
	return ups + rel
}

// writeBuildFiles regenerates every BUILD.dawn from the shape and the current versions.
func (w *bWorld) writeBuildFiles() error {
	pkgs := map[string][]string{}
	for n, t := range w.shape.Targets {
		pkgs[t.Pkg] = append(pkgs[t.Pkg], n)
	}
	// remove BUILD files of packages that no longer exist
	filepath.WalkDir(w.dir, func(p string, d fs.DirEntry, err error) error {
		if err == nil && !d.IsDir() && d.Name() == "BUILD.dawn" {
			rel, _ := filepath.Rel(w.dir, filepath.Dir(p))
			if rel == "." {
				rel = ""
			}
			if _, ok := pkgs[filepath.ToSlash(rel)]; !ok {
				os.Remove(p)
			}
		}
		if err == nil && d.IsDir() && d.Name() == ".dawn" {
			return fs.SkipDir
		}
		return nil
	})
	for pkg, names := range pkgs {
		sort.Strings(names)
		var b strings.Builder
		for i := 0; i < w.comment; i++ {
			fmt.Fprintf(&b, "# cosmetic comment %d\n\n", i)
		}
		// helper modules first: load statements lead the file
		for _, n := range names {
			t := w.shape.Targets[n]
			switch t.Kind {
			case "module":
				fmt.Fprintf(&b, "load(\"//lib:vals_%s.dawn\", \"V_%s\")\n", n, n)
			case "modfn":
				fmt.Fprintf(&b, "load(\"//lib:vals_%s.dawn\", \"h_%s\")\n", n, n)
			}
			if t.Kind == "module" || t.Kind == "modfn" {
				os.MkdirAll(filepath.Join(w.dir, "lib"), 0755)
				val := bValue(w.values, w.envVer[n])
				src := fmt.Sprintf("V_%s = %s\ndef h_%s():\n    return %s\n", n, val, n, val)
				if err := os.WriteFile(filepath.Join(w.dir, "lib", "vals_"+n+".dawn"), []byte(src), 0644); err != nil {
					return err
				}
			}
		}
		for _, n := range names {
			t := w.shape.Targets[n]
			class := w.values
			val := bValue(class, w.envVer[n])
			fmt.Fprintf(&b, "U_%s = %d\n", n, w.unref[n])
			var deps, srcs, gens []string
			for _, d := range t.Deps {
				dt := w.shape.Targets[d]
				if dt == nil {
					deps = append(deps, fmt.Sprintf("%q", ":"+d))
					continue
				}
				lbl := "//" + dt.Pkg + ":" + d
				if bContains(t.Alt, d) {
					// the same label with a redundant separator
					lbl = "//" + dt.Pkg + "/:" + d
					if dt.Pkg == "" {
						lbl = "///:" + d
					}
				}
				deps = append(deps, fmt.Sprintf("%q", lbl))
			}
			for _, s := range t.Srcs {
				srcs = append(srcs, fmt.Sprintf("%q", relFrom(pkg, w.srcRel(s))))
			}
			for _, g := range t.Gens {
				gens = append(gens, fmt.Sprintf("%q", relFrom(pkg, w.srcRel(g))))
			}
			args := fmt.Sprintf("name=%q, deps=[%s], sources=[%s], generates=[%s]", n, strings.Join(deps, ", "), strings.Join(srcs, ", "), strings.Join(gens, ", "))
			if t.Always {
				args += ", always=True"
			}
			doc := ""
			if w.comment > 0 {
				doc = fmt.Sprintf("    \"\"\"docstring revision %d\"\"\"\n", w.comment)
			}
			switch t.Kind {
			case "const":
				fmt.Fprintf(&b, "@target(%s)\ndef _%s():\n%s    vexec(%q, %s)\n\n", args, n, doc, n, val)
			case "default":
				fmt.Fprintf(&b, "@target(%s)\ndef _%s(t, x=%s):\n%s    vexec(%q, x)\n\n", args, n, val, doc, n)
			case "closure":
				fmt.Fprintf(&b, "def _mk_%s(v):\n    def _%s():\n%s        vexec(%q, v)\n    return _%s\ntarget(%s, function=_mk_%s(%s))\n\n", n, n, doc, n, n, args, n, val)
			case "helper":
				fmt.Fprintf(&b, "def _h_%s():\n    return %s\n@target(%s)\ndef _%s():\n%s    vexec(%q, _h_%s())\n\n", n, val, args, n, doc, n, n)
			case "nested":
				fmt.Fprintf(&b, "@target(%s)\ndef _%s():\n%s    def inner():\n        return %s\n    vexec(%q, inner())\n\n", args, n, doc, val, n)
			case "recursive":
				// the value is reached through a recursive and a pair of mutually recursive helpers
				fmt.Fprintf(&b, "def _r_%s(n):\n    return %s if n <= 0 else _r_%s(n - 1)\ndef _e_%s(n):\n    return _r_%s(0) if n == 0 else _o_%s(n - 1)\ndef _o_%s(n):\n    return _e_%s(n - 1)\n@target(%s)\ndef _%s():\n%s    vexec(%q, _e_%s(2))\n\n",
					n, val, n, n, n, n, n, n, args, n, doc, n, n)
			case "flag":
				fmt.Fprintf(&b, "F_%s = parse_flag(\"f_%s\", default=\"v1\")\n@target(%s)\ndef _%s():\n%s    vexec(%q, F_%s)\n\n", n, n, args, n, doc, n, n)
			case "module":
				fmt.Fprintf(&b, "@target(%s)\ndef _%s():\n%s    vexec(%q, V_%s)\n\n", args, n, doc, n, n)
			case "modfn":
				fmt.Fprintf(&b, "@target(%s)\ndef _%s():\n%s    vexec(%q, h_%s())\n\n", args, n, doc, n, n)
			case "stdlib":
				// the body names several members of the predeclared modules
				fmt.Fprintf(&b, "K_%s = %s\n@target(%s)\ndef _%s():\n%s    p = os.path.join(\"a\", os.path.base(\"x/b\"))\n    q = os.path.dir(p) + os.path.sep\n    e = os.exists(\"no-such-file-\" + p) or os.path.is_abs(q) or os.path.splitext(p)[1] != \"\" or sh.exec == sh.output or os.getcwd == None\n    vexec(%q, K_%s if not e else None)\n\n", n, val, args, n, doc, n, n)
			default: // global
				fmt.Fprintf(&b, "K_%s = %s\n@target(%s)\ndef _%s():\n%s    vexec(%q, K_%s)\n\n", n, val, args, n, doc, n, n)
			}
		}
		dir := filepath.Join(w.dir, filepath.FromSlash(pkg))
		if err := os.MkdirAll(dir, 0755); err != nil {
			return err
		}
		if err := os.WriteFile(filepath.Join(dir, "BUILD.dawn"), []byte(b.String()), 0644); err != nil {
			return err
		}
	}
	return nil
}

func (w *bWorld) writeSource(s string) error {
	p := w.srcPath(s)
	if w.isDir(s) {
		if err := os.MkdirAll(p, 0755); err != nil {
			return err
		}
		return nil
	}
	if err := os.MkdirAll(filepath.Dir(p), 0755); err != nil {
		return err
	}
	return os.WriteFile(p, []byte(fmt.Sprintf("v%d", w.srcVer[s])), 0644)
}

// token of a source as a body (or the harness) sees it: file contents, or for a directory
// the sorted listing of names and contents; "" when absent
func bToken(p string) string {
	st, err := os.Stat(p)
	if err != nil {
		return ""
	}
	if !st.IsDir() {
		b, _ := os.ReadFile(p)
		return string(b)
	}
	var parts []string
	filepath.WalkDir(p, func(q string, d fs.DirEntry, err error) error {
		if err != nil {
			return nil
		}
		if d.IsDir() {
			// the tree's shape is part of what a body sees: sub-directories count, empty or not
			if rel, _ := filepath.Rel(p, q); rel != "." {
				parts = append(parts, filepath.ToSlash(rel)+"/")
			}
			return nil
		}
		rel, _ := filepath.Rel(p, q)
		b, _ := os.ReadFile(q)
		parts = append(parts, filepath.ToSlash(rel)+"="+string(b))
		return nil
	})
	sort.Strings(parts)
	return "dir{" + strings.Join(parts, ";") + "}"
}

func (w *bWorld) setup() error {
	if err := os.WriteFile(filepath.Join(w.dir, ".dawnconfig"), nil, 0644); err != nil {
		return err
	}
	for _, s := range w.shape.Sources {
		if w.generatorOf(s) != "" {
			continue
		}
		w.srcVer[s] = 1
		if err := w.writeSource(s); err != nil {
			return err
		}
		if w.isDir(s) {
			os.MkdirAll(filepath.Join(w.srcPath(s), ".settings"), 0755)
			os.MkdirAll(filepath.Join(w.srcPath(s), "lib"), 0755)
			for _, f := range []string{"a.txt", "b.txt", ".env", ".settings/level.txt", "lib/c.txt"} {
				if err := os.WriteFile(filepath.Join(w.srcPath(s), f), []byte("c-"+f), 0644); err != nil {
					return err
				}
			}
		}
	}
	for n := range w.shape.Targets {
		w.envVer[n] = 1
	}
	// something of the user's next to the build-state directory
	os.MkdirAll(filepath.Join(w.dir, ".dawn", "notes"), 0755)
	os.WriteFile(filepath.Join(w.dir, ".dawn", "notes", "keep.txt"), []byte("not build state"), 0644)
	os.WriteFile(filepath.Join(w.dir, ".dawn", "settings.toml"), []byte("x = 1\n"), 0644)
	return w.writeBuildFiles()
}

// ---- the body builtin ------------------------------------------------------------------

func (w *bWorld) logEvent(ev string, kv ...any) {
	w.lastEvent.Store(time.Now().UnixNano())
	w.rec.Log(ev, kv...)
}

func (w *bWorld) crashPoint(point, lbl string) {
	c := w.crash
	if c == nil || c.Point != point {
		return
	}
	if c.Label != "" && w.nameOf(lbl) != c.Label && lbl != c.Label {
		return
	}
	w.mu.Lock()
	w.hits[point+"|"+lbl]++
	n := w.hits[point+"|"+lbl]
	w.mu.Unlock()
	if n == c.Hit || c.Hit == 0 {
		os.Exit(3)
	}
}

// nameOf maps a label string to the shape's name of the target or source
func (w *bWorld) nameOf(lbl string) string {
	l, err := label.Parse(lbl)
	if err != nil {
		return lbl
	}
	return w.nameOfLabel(l)
}

func (w *bWorld) nameOfLabel(l *label.Label) string {
	if l.Kind == "source" {
		n := strings.TrimSuffix(l.Name, ".txt")
		return n
	}
	return l.Name
}

func (w *bWorld) vexec(thread *starlark.Thread, fn *starlark.Builtin, args starlark.Tuple, kwargs []starlark.Tuple) (starlark.Value, error) {
	var name string
	var env starlark.Value
	if err := starlark.UnpackPositionalArgs("vexec", args, kwargs, 2, &name, &env); err != nil {
		return nil, err
	}
	t := w.shape.Targets[name]
	if t == nil {
		return nil, fmt.Errorf("vexec: unknown target %s", name)
	}
	missing := false
	for _, g := range t.Gens {
		if _, err := os.Stat(w.srcPath(g)); err != nil {
			missing = true
		}
	}
	srcs := map[string]string{}
	var parts []string
	parts = append(parts, "target="+name, "env="+env.String())
	for _, s := range t.Srcs {
		tok := bToken(w.srcPath(s))
		srcs[s] = tok
		parts = append(parts, s+"="+tok)
	}
	for _, d := range t.Deps {
		b, _ := os.ReadFile(filepath.Join(w.dir, "out", d+".txt"))
		sum := sha256.Sum256(b)
		parts = append(parts, "dep:"+d+"="+hex.EncodeToString(sum[:6]))
	}
	content := strings.Join(parts, "|")
	if w.viaCallback.Load() {
		// the callback of run() is fed by a goroutine of its own: the evaluating event was handed
		// over before the body began, let it be logged before what the body logs itself
		for i := 0; i < 4000; i++ {
			if _, ok := w.evalLogged.Load(name); ok {
				break
			}
			time.Sleep(500 * time.Microsecond)
		}
	}
	// watch scenarios: a held body stops here, after it has read its inputs
	w.mu.Lock()
	gate := w.gates[name]
	delete(w.gates, name)
	w.mu.Unlock()
	if gate != nil {
		w.held <- name
		<-gate
	}
	// some output on the target's stdout (exercises the line writer): two lines, split oddly
	// (the three writes split the two lines at odd places; the last line is unterminated)
	for i, chunk := range []string{"run " + name + "\npar", "", "tial", " line of " + name} {
		fmt.Fprint(bStdout(thread), chunk)
		w.logEvent("Out", "l", name, "text", chunk)
		if i == 2 && thread.Print != nil {
			// what print() in the body does, in the middle of an unfinished line: the text and a
			// line break go to the same output
			w.logEvent("Out", "l", name, "text", " <printed by "+name+">\n")
			thread.Print(thread, " <printed by "+name+">")
		}
	}
	w.mu.Lock()
	failing := w.fail[name]
	w.execLog = append(w.execLog, name)
	w.mu.Unlock()
	w.crashPoint("body.begin", name)
	if failing && w.wreck {
		// ... and takes the directory dawn stages its records in with it
		os.RemoveAll(filepath.Join(w.dir, ".dawn", "build", "temp"))
	}
	if failing {
		// a failing body leaves a partial output behind
		os.MkdirAll(filepath.Join(w.dir, "out"), 0755)
		os.WriteFile(filepath.Join(w.dir, "out", name+".txt"), []byte("partial:"+content), 0644)
		w.logEvent("ExecEnd", "l", name, "ok", false, "env", env.String(), "srcs", srcs, "missing", missing)
		return nil, fmt.Errorf("body of %s failed by plan", name)
	}
	os.MkdirAll(filepath.Join(w.dir, "out"), 0755)
	os.MkdirAll(filepath.Join(w.dir, "gen"), 0755)
	for i, g := range t.Gens {
		if i > 0 {
			w.crashPoint("body.mid", name)
		}
		if err := os.WriteFile(w.srcPath(g), []byte("gen:"+content), 0644); err != nil {
			return nil, err
		}
		w.logEvent("Wrote", "s", g, "v", "gen:"+content)
	}
	w.crashPoint("body.mid", name)
	if err := os.WriteFile(filepath.Join(w.dir, "out", name+".txt"), []byte(content), 0644); err != nil {
		return nil, err
	}
	w.logEvent("ExecEnd", "l", name, "ok", true, "env", env.String(), "srcs", srcs, "missing", missing)
	return starlark.None, nil
}

func bStdout(thread *starlark.Thread) interface{ Write([]byte) (int, error) } {
	// util.Stdio is what sh/os builtins use; fall back to discarding
	if v := thread.Local("stdout"); v != nil {
		if wr, ok := v.(interface{ Write([]byte) (int, error) }); ok {
			return wr
		}
	}
	return discardWriter{}
}

type discardWriter struct{}

func (discardWriter) Write(b []byte) (int, error) { return len(b), nil }

// ---- events ------------------------------------------------------------------------------

type bEvents struct {
	discardEventsT
	w  *bWorld
	cb bool // fed by the callback of run()
}

func (e *bEvents) TargetUpToDate(l *label.Label) { e.w.logEvent("UpToDate", "l", e.w.nameOfLabel(l)) }
func (e *bEvents) TargetEvaluating(l *label.Label, reason string, d diff.ValueDiff) {
	e.w.evalSeen.Store(l.String(), true)
	e.w.inflight.Add(1)
	e.w.logEvent("Evaluating", "l", e.w.nameOfLabel(l), "reason", reason)
	e.w.evalLogged.Store(e.w.nameOfLabel(l), true)
}
func (e *bEvents) done(l *label.Label) {
	if _, ok := e.w.evalSeen.LoadAndDelete(l.String()); ok {
		e.w.inflight.Add(-1)
	}
}
func (e *bEvents) TargetSucceeded(l *label.Label, changed bool) {
	e.w.logEvent("Succeeded", "l", e.w.nameOfLabel(l), "changed", changed)
	e.done(l)
}
func (e *bEvents) TargetFailed(l *label.Label, err error) {
	e.w.logEvent("Failed", "l", e.w.nameOfLabel(l), "msg", err.Error())
	e.done(l)
}
func (e *bEvents) RunDone(err error) {
	e.w.logEvent("RunDone", "err", err != nil)
	if e.w.watching.Load() {
		// a build of watch mode ends here; it is "overlapped" when the tree was edited after the
		// hand-off that started it (conservatively: from 700 ms before its reload finished)
		over := e.w.lastEdit.Load() > e.w.loadDone.Load()-int64(700*time.Millisecond)
		e.w.logEvent("BuildEnd", "root", e.w.watchRoot, "err", err != nil, "msg", fmt.Sprint(err), "overlapped", over)
		e.w.inBuild.Store(false)
	}
}
func (e *bEvents) LoadDone(err error) {
	if !e.w.watching.Load() {
		return
	}
	e.w.logEvent("Load", "ok", err == nil, "expected", true)
	if err == nil {
		e.w.loadDone.Store(time.Now().UnixNano())
		e.w.inBuild.Store(true)
		e.w.logEvent("BuildBegin", "root", e.w.watchRoot, "mode", "real", "watch", true)
	}
}
func (e *bEvents) FileChanged(l *label.Label) {
	if e.w.watching.Load() {
		e.w.logEvent("FileChanged", "l", l.String())
	}
}
func (e *bEvents) Print(l *label.Label, line string) {
	if !e.cb && e.w.viaCallback.Load() {
		// the build is observed through the callback of run(), yet the line arrives at the
		// receiver the project was loaded with
		e.w.logEvent("PrintElsewhere", "l", e.w.nameOfLabel(l), "line", line)
		return
	}
	e.w.logEvent("Print", "l", e.w.nameOfLabel(l), "line", line)
}

// runViaBuiltin builds the way a REPL session does: with the run() builtin, the events arriving
// as values at a Starlark callback. What the callback receives is logged as the same events
// the Go interface delivers.
func (w *bWorld) runViaBuiltin(proj *Project, st *bStep) error {
	be := &bEvents{w: w, cb: true}
	w.evalLogged.Range(func(k, _ any) bool { w.evalLogged.Delete(k); return true })
	w.viaCallback.Store(true)
	defer w.viaCallback.Store(false)
	thread, globals := proj.REPLEnv(discardWriter{}, &label.Label{Kind: "target", Package: "//"})
	str := func(ev starlark.Value, name string) (string, bool) {
		ha, ok := ev.(starlark.HasAttrs)
		if !ok {
			return "", false
		}
		v, err := ha.Attr(name)
		if err != nil || v == nil {
			return "", false
		}
		s, ok := v.(starlark.String)
		return string(s), ok
	}
	cb := starlark.NewBuiltin("on_event", func(_ *starlark.Thread, _ *starlark.Builtin, args starlark.Tuple, _ []starlark.Tuple) (starlark.Value, error) {
		if len(args) != 1 {
			return starlark.None, nil
		}
		ev := args[0]
		kind, _ := str(ev, "kind")
		var l *label.Label
		if ls, ok := str(ev, "label"); ok {
			l, _ = label.Parse(ls)
		}
		if l == nil && kind != "RunDone" {
			w.logEvent("CallbackEvent", "kind", kind, "text", ev.String())
			return starlark.None, nil
		}
		switch kind {
		case "TargetUpToDate":
			be.TargetUpToDate(l)
		case "TargetEvaluating":
			reason, _ := str(ev, "reason")
			be.TargetEvaluating(l, reason, nil)
		case "TargetSucceeded":
			changed := false
			if ha, ok := ev.(starlark.HasAttrs); ok {
				if v, err := ha.Attr("changed"); err == nil && v != nil {
					changed = bool(v.Truth())
				}
			}
			be.TargetSucceeded(l, changed)
		case "TargetFailed":
			msg, _ := str(ev, "err")
			be.TargetFailed(l, fmt.Errorf("%s", msg))
		case "Print":
			line, _ := str(ev, "line")
			be.Print(l, line)
		case "RunDone":
			if msg, ok := str(ev, "err"); ok {
				be.RunDone(fmt.Errorf("%s", msg))
			} else {
				be.RunDone(nil)
			}
		default:
			w.logEvent("CallbackEvent", "kind", kind, "text", ev.String())
		}
		return starlark.None, nil
	})
	kwargs := []starlark.Tuple{{starlark.String("callback"), cb}}
	if st.Mode == "always" {
		kwargs = append(kwargs, starlark.Tuple{starlark.String("always"), starlark.True})
	}
	if st.Mode == "dry" {
		kwargs = append(kwargs, starlark.Tuple{starlark.String("dry_run"), starlark.True})
	}
	_, err := starlark.Call(thread, globals["run"], starlark.Tuple{starlark.String(w.rootLabel(st.Root).String())}, kwargs)
	return err
}

// ---- digests --------------------------------------------------------------------------------

func bDigest(root string, state bool) string {
	h := sha256.New()
	// the build-state directory; whatever else lives under .dawn is not dawn's to touch
	stateDir := filepath.Join(root, ".dawn", "build")
	filepath.WalkDir(root, func(p string, d fs.DirEntry, err error) error {
		if err != nil {
			return nil
		}
		in := p == stateDir || strings.HasPrefix(p, stateDir+string(filepath.Separator))
		if in != state {
			if d.IsDir() && p == stateDir && !state {
				return fs.SkipDir
			}
			return nil
		}
		rel, _ := filepath.Rel(root, p)
		if d.IsDir() {
			fmt.Fprintf(h, "D %s\n", rel)
			return nil
		}
		b, _ := os.ReadFile(p)
		fmt.Fprintf(h, "F %s %x\n", rel, sha256.Sum256(b))
		return nil
	})
	return hex.EncodeToString(h.Sum(nil))[:16]
}

// bSemantic digests what the persisted build state *means*: every record parsed and
// re-marshalled (an absent record and an empty one mean the same: never built); the index and
// stray temporaries are not part of it.
func bSemantic(root string) string {
	h := sha256.New()
	base := filepath.Join(root, ".dawn", "build")
	for _, kind := range []string{"targets", "sources"} {
		ents, _ := os.ReadDir(filepath.Join(base, kind))
		for _, e := range ents {
			b, _ := os.ReadFile(filepath.Join(base, kind, e.Name()))
			var info targetInfo
			if err := json.Unmarshal(b, &info); err != nil {
				fmt.Fprintf(h, "%s/%s unreadable %x\n", kind, e.Name(), sha256.Sum256(b))
				continue
			}
			info.Doc = ""
			if len(info.Dependencies) == 0 && info.Data == "" && !info.Rerun {
				continue
			}
			nb, _ := json.Marshal(info)
			fmt.Fprintf(h, "%s/%s %s\n", kind, e.Name(), nb)
		}
	}
	return hex.EncodeToString(h.Sum(nil))[:16]
}

// records returns label-name -> digest of every persisted record, and the number of temps
func (w *bWorld) records() (map[string]string, int) {
	res := map[string]string{}
	temps := 0
	base := filepath.Join(w.dir, ".dawn", "build")
	for _, kind := range []string{"targets", "sources"} {
		ents, _ := os.ReadDir(filepath.Join(base, kind))
		for _, e := range ents {
			b, _ := os.ReadFile(filepath.Join(base, kind, e.Name()))
			name := e.Name()
			if i := strings.LastIndex(name, "%2F"); i >= 0 {
				name = name[i+3:]
			}
			if u, err := url.PathUnescape(name); err == nil {
				name = u
			}
			name = strings.TrimSuffix(name, ".txt")
			res[name] = fmt.Sprintf("%x", sha256.Sum256(b))[:12]
		}
	}
	ents, _ := os.ReadDir(filepath.Join(base, "temp"))
	temps = len(ents)
	return res, temps
}

// ---- steps -----------------------------------------------------------------------------------

// flagArgs is the command line: the current value of every flag-kind target's flag.
func (w *bWorld) flagArgs() []string {
	if w.fixedArgs != nil {
		return w.fixedArgs
	}
	args := []string{}
	for n, t := range w.shape.Targets {
		if t.Kind == "flag" && w.envVer[n] > 1 {
			name := "f_" + n
			if t.Pkg != "" {
				name = strings.ReplaceAll(t.Pkg, "/", ".") + "." + name
			}
			args = append(args, fmt.Sprintf("--%s=v%d", name, w.envVer[n]))
		}
	}
	sort.Strings(args)
	return args
}

// envToken is the value a target's body sees for its env atom, as the body would print it.
func (w *bWorld) envToken(n string) string {
	if t := w.shape.Targets[n]; t != nil && t.Kind == "flag" {
		return fmt.Sprintf("%q", fmt.Sprintf("v%d", w.envVer[n]))
	}
	return bValue(w.values, w.envVer[n])
}

func (w *bWorld) options() *LoadOptions {
	return &LoadOptions{
		Args:     w.flagArgs(),
		Events:   &bEvents{w: w},
		Builtins: starlark.StringDict{"vexec": starlark.NewBuiltin("vexec", w.vexec), "os": starlark_os.Module, "sh": starlark_sh.Module},
	}
}

func (w *bWorld) rootLabel(root string) *label.Label {
	t := w.shape.Targets[root]
	pkg := "//"
	if t != nil && t.Pkg != "" {
		pkg = "//" + t.Pkg
	}
	return &label.Label{Package: pkg, Name: root}
}

func (w *bWorld) liveNames() []string {
	var live []string
	for n := range w.shape.Targets {
		live = append(live, n)
	}
	live = append(live, w.shape.Sources...)
	sort.Strings(live)
	return live
}

// build performs one build step in this process.
func (w *bWorld) build(st *bStep) {
	w.fail = map[string]bool{}
	for _, f := range st.Fail {
		w.fail[f] = true
	}
	w.wreck = st.Wreck
	// a dry run is a load plus a walk: its effect on the persisted state is measured from
	// before the load
	preState, preTree := "", ""
	if st.Mode == "dry" {
		preState, preTree = bSemantic(w.dir), bDigest(w.dir, false)
	}
	opts := w.options()
	opts.PreferIndex = st.Index
	var proj *Project
	var err error
	if st.Reuse && w.proj != nil {
		proj = w.proj
	} else {
		st.Reuse = false
		proj, err = Load(w.dir, opts)
		if err != nil {
			w.logEvent("Load", "ok", false, "msg", err.Error())
			w.proj = nil
			return
		}
		if st.Index {
			// an index written by dawn for this project lists its targets: a load that prefers the
			// index and comes back with none did not load the persisted state
			nfun := 0
			for _, t := range proj.Targets() {
				if t.Label().Kind == "" || t.Label().Kind == "target" {
					nfun++
				}
			}
			w.logEvent("Load", "ok", true, "index", true, "ntargets", nfun, "declared", len(w.shape.Targets))
		} else {
			w.logEvent("Load", "ok", true)
		}
	}
	w.proj = proj
	if st.GC {
		before, _ := w.records()
		treeBefore := bDigest(w.dir, false)
		gerr := proj.GC()
		after, temps := w.records()
		w.logEvent("GC", "live", w.liveNames(), "before", before, "after", after, "temps", temps,
			"tree_same", treeBefore == bDigest(w.dir, false), "err", gerr != nil)
		// a collection is allowed to delete records: a dry run after it is measured from here
		preState, preTree = bSemantic(w.dir), bDigest(w.dir, false)
		if st.Index {
			// an index-only project cannot build; reload fully
			proj, err = Load(w.dir, w.options())
			if err != nil {
				w.logEvent("Load", "ok", false, "msg", err.Error())
				return
			}
			w.logEvent("Load", "ok", true)
		}
	}
	reps := 1
	if st.Rerun {
		reps = 2
	}
	for rep := 0; rep < reps; rep++ {
		if st.Mode == "dry" {
			if rep == 0 && !st.Reuse {
				w.logEvent("Digest", "when", "before", "state", preState, "tree", preTree)
			} else {
				w.logEvent("Digest", "when", "before", "state", bSemantic(w.dir), "tree", bDigest(w.dir, false))
			}
		}
		mode := st.Mode
		if (rep > 0 || st.Reuse) && st.Mode == "dry" {
			w.logEvent("BuildBegin", "root", st.Root, "mode", "dry", "reuse", true)
		} else if rep > 0 || st.Reuse {
			w.logEvent("BuildBegin", "root", st.Root, "mode", "rerun")
		} else {
			w.logEvent("BuildBegin", "root", st.Root, "mode", mode)
		}
		// a plain build passes no options, as watch mode does
		var ropts *RunOptions
		if st.Mode == "always" || st.Mode == "dry" {
			ropts = &RunOptions{Always: st.Mode == "always", DryRun: st.Mode == "dry"}
		}
		baseGoroutines := runtime.NumGoroutine()
		var rerr error
		if st.Via == "repl" {
			rerr = w.runViaBuiltin(proj, st)
		} else {
			rerr = proj.Run(w.rootLabel(st.Root), ropts)
		}
		if rerr != nil {
			// after a cyclic-dependency error Run returns while other targets may still be
			// running, or may not even have started: let them finish (no evaluating target, and
			// no goroutine left over from the run) before anything is measured
			for i := 0; i < 800 && (w.inflight.Load() != 0 || runtime.NumGoroutine() > baseGoroutines); i++ {
				time.Sleep(5 * time.Millisecond)
			}
		}
		w.logEvent("BuildEnd", "root", st.Root, "err", rerr != nil, "msg", fmt.Sprint(rerr))
		if st.Mode == "dry" {
			w.logEvent("Digest", "when", "after", "state", bSemantic(w.dir), "tree", bDigest(w.dir, false))
		}
		if st.Clean && st.Mode != "dry" && rerr == nil && rep == 0 {
			same, what := w.cleanCompare(st.Root)
			w.logEvent("Clean", "same", same, "l", what)
		}
	}
}

// cleanCompare builds the same tree from scratch in a copy and compares the outputs of the
// targets in the closure of root.
func (w *bWorld) cleanCompare(root string) (bool, string) {
	tmp, err := os.MkdirTemp("", "verif-clean-")
	if err != nil {
		return true, ""
	}
	defer os.RemoveAll(tmp)
	filepath.WalkDir(w.dir, func(p string, d fs.DirEntry, err error) error {
		if err != nil {
			return nil
		}
		rel, _ := filepath.Rel(w.dir, p)
		top := strings.Split(filepath.ToSlash(rel), "/")[0]
		if top == ".dawn" || top == "out" || top == "gen" {
			if d.IsDir() {
				return fs.SkipDir
			}
			return nil
		}
		if d.IsDir() {
			os.MkdirAll(filepath.Join(tmp, rel), 0755)
			return nil
		}
		b, _ := os.ReadFile(p)
		os.WriteFile(filepath.Join(tmp, rel), b, 0644)
		return nil
	})
	cw := &bWorld{dir: tmp, shape: w.shape, values: w.values, rec: &sched.Recorder{}, fail: map[string]bool{}, hits: map[string]int{},
		fixedArgs: w.flagArgs()}
	proj, err := Load(tmp, cw.options())
	if err != nil {
		return true, ""
	}
	if err := proj.Run(cw.rootLabel(root), nil); err != nil {
		return true, ""
	}
	// compare every output the clean build produced
	var diffs []string
	for _, sub := range []string{"out", "gen"} {
		ents, _ := os.ReadDir(filepath.Join(tmp, sub))
		for _, e := range ents {
			a, _ := os.ReadFile(filepath.Join(tmp, sub, e.Name()))
			b, _ := os.ReadFile(filepath.Join(w.dir, sub, e.Name()))
			if string(a) != string(b) {
				diffs = append(diffs, strings.TrimSuffix(e.Name(), ".txt"))
			}
		}
	}
	sort.Strings(diffs)
	if len(diffs) > 0 {
		return false, diffs[0]
	}
	return true, ""
}

// watch runs Project.Watch on the step's root while the script edits the tree; bodies can be held
// so that edits land in the middle of a build. Watch never returns: its goroutines are left behind.
func (w *bWorld) watch(c *bCase, st *bStep, exe string) error {
	proj, err := Load(w.dir, w.options())
	if err != nil {
		w.logEvent("Load", "ok", false, "msg", err.Error())
		return nil
	}
	w.proj = proj
	w.watchRoot = st.Root
	w.gates, w.held = map[string]chan struct{}{}, make(chan string, 16)
	armed := map[string]chan struct{}{}
	w.watching.Store(true)
	prevYield := VerifYield
	VerifYield = func(point, obj string) {
		if strings.HasPrefix(point, "watch.") && w.watching.Load() {
			w.logEvent("Watch", "wp", point, "obj", obj)
		}
	}
	defer func() { VerifYield = prevYield }()
	w.logEvent("WatchBegin", "root", st.Root)
	go proj.Watch(w.rootLabel(st.Root))
	time.Sleep(200 * time.Millisecond) // the notifier installs its watches
	quiet := func() bool {
		deadline := time.Now().Add(25 * time.Second)
		for time.Now().Before(deadline) {
			idle := time.Duration(time.Now().UnixNano() - w.lastEvent.Load())
			if idle > 1300*time.Millisecond && !w.inBuild.Load() {
				return true
			}
			time.Sleep(50 * time.Millisecond)
		}
		return false
	}
	ok := true
	for i := range st.Script {
		sub := &st.Script[i]
		switch sub.Op {
		case "hold":
			ch := make(chan struct{})
			w.mu.Lock()
			w.gates[sub.T] = ch
			w.mu.Unlock()
			armed[sub.T] = ch
		case "wait_held":
			select {
			case <-w.held:
			case <-time.After(10 * time.Second):
				w.logEvent("HarnessNote", "what", "no body was held within 10s")
			}
		case "release":
			if ch := armed[sub.T]; ch != nil {
				close(ch)
				delete(armed, sub.T)
			}
		case "quiet":
			if !quiet() {
				ok = false
			}
		case "sleep":
			time.Sleep(time.Duration(60+rand.Intn(500)) * time.Millisecond)
		default:
			w.lastEdit.Store(time.Now().UnixNano())
			if err := w.apply(c, sub, exe); err != nil {
				return err
			}
			w.lastEdit.Store(time.Now().UnixNano())
		}
	}
	for _, ch := range armed {
		close(ch)
	}
	if ok && quiet() {
		w.logEvent("Quiesce", "root", st.Root)
	} else {
		w.logEvent("Hang", "what", "watch mode did not settle within 25s")
	}
	w.watching.Store(false)
	return nil
}

func (w *bWorld) apply(c *bCase, st *bStep, exe string) error {
	switch st.Op {
	case "watch":
		if exe != "" {
			return w.childBuild(c, st, exe)
		}
		return w.watch(c, st, exe)
	case "revert_env":
		// the previous edit of the target's env atom is undone
		if w.envVer[st.T] > 1 {
			w.envVer[st.T]--
		}
		w.logEvent("Edit", "kind", "env", "t", st.T, "v", w.envToken(st.T), "mates", w.mates(st.T))
		return w.writeBuildFiles()
	case "edit_env":
		w.envVer[st.T]++
		mates := w.mates(st.T)
		if t := w.shape.Targets[st.T]; t != nil && (t.Kind == "flag" || t.Kind == "module" || t.Kind == "modfn") {
			// the value lives on the command line or in a helper module: no build file changes
			mates = []string{}
		}
		w.logEvent("Edit", "kind", "env", "t", st.T, "v", w.envToken(st.T), "mates", mates)
		return w.writeBuildFiles()
	case "edit_src":
		if w.isDir(st.S) {
			w.srcVer[st.S]++
			plain := func() []os.DirEntry {
				all, _ := os.ReadDir(w.srcPath(st.S))
				var out []os.DirEntry
				for _, e := range all {
					if !e.IsDir() && !strings.HasPrefix(e.Name(), ".") {
						out = append(out, e)
					}
				}
				return out
			}
			switch st.Kind {
			case "rename":
				// rename a file inside the directory, keeping contents
				ents := plain()
				if len(ents) > 0 {
					old := ents[0].Name()
					os.Rename(filepath.Join(w.srcPath(st.S), old), filepath.Join(w.srcPath(st.S), fmt.Sprintf("r%d-%s", w.srcVer[st.S], old)))
				}
			case "swap":
				a, _ := os.ReadFile(filepath.Join(w.srcPath(st.S), "b.txt"))
				ents := plain()
				if len(ents) >= 2 {
					p0, p1 := filepath.Join(w.srcPath(st.S), ents[0].Name()), filepath.Join(w.srcPath(st.S), ents[1].Name())
					x, _ := os.ReadFile(p0)
					y, _ := os.ReadFile(p1)
					os.WriteFile(p0, y, 0644)
					os.WriteFile(p1, x, 0644)
				}
				_ = a
			case "hidden":
				// only a hidden entry of the directory changes
				os.WriteFile(filepath.Join(w.srcPath(st.S), ".env"), []byte(fmt.Sprintf("h-v%d", w.srcVer[st.S])), 0644)
			case "renamedir", "movefile", "emptydir":
				// the shape of the tree below the directory changes, no file's name or contents does
				subs := func() []string {
					all, _ := os.ReadDir(w.srcPath(st.S))
					var out []string
					for _, e := range all {
						if e.IsDir() && !strings.HasPrefix(e.Name(), ".") && !strings.HasPrefix(e.Name(), "e") {
							out = append(out, e.Name())
						}
					}
					return out
				}()
				switch {
				case st.Kind == "emptydir":
					os.MkdirAll(filepath.Join(w.srcPath(st.S), fmt.Sprintf("e%d", w.srcVer[st.S])), 0755)
				case st.Kind == "renamedir" && len(subs) > 0:
					os.Rename(filepath.Join(w.srcPath(st.S), subs[0]), filepath.Join(w.srcPath(st.S), fmt.Sprintf("lib%d", w.srcVer[st.S])))
				case st.Kind == "movefile" && len(subs) > 0:
					to := filepath.Join(w.srcPath(st.S), fmt.Sprintf("inc%d", w.srcVer[st.S]))
					os.MkdirAll(to, 0755)
					os.Rename(filepath.Join(w.srcPath(st.S), subs[0], "c.txt"), filepath.Join(to, "c.txt"))
					os.Remove(filepath.Join(w.srcPath(st.S), subs[0]))
				}
			case "dangling":
				// a link to nowhere sits in the directory (an editor's lock file) while a file changes
				os.Symlink("nowhere", filepath.Join(w.srcPath(st.S), ".#a.txt"))
				os.WriteFile(filepath.Join(w.srcPath(st.S), "a.txt"), []byte(fmt.Sprintf("d-v%d", w.srcVer[st.S])), 0644)
			case "hidden-nested":
				os.WriteFile(filepath.Join(w.srcPath(st.S), ".settings", "level.txt"), []byte(fmt.Sprintf("n-v%d", w.srcVer[st.S])), 0644)
			default:
				os.WriteFile(filepath.Join(w.srcPath(st.S), "a.txt"), []byte(fmt.Sprintf("c-v%d", w.srcVer[st.S])), 0644)
			}
			w.logEvent("Edit", "kind", "src", "s", st.S, "v", bToken(w.srcPath(st.S)))
			return nil
		}
		w.srcVer[st.S]++
		if err := w.writeSource(st.S); err != nil {
			return err
		}
		w.logEvent("Edit", "kind", "src", "s", st.S, "v", bToken(w.srcPath(st.S)))
	case "revert_src":
		// the previous edit of the source is undone
		if w.srcVer[st.S] > 1 {
			w.srcVer[st.S]--
		}
		if err := w.writeSource(st.S); err != nil {
			return err
		}
		w.logEvent("Edit", "kind", "src", "s", st.S, "v", bToken(w.srcPath(st.S)))
	case "restore":
		// the file comes back with the contents it had (a stash popped, a branch switched back)
		if err := w.writeSource(st.S); err != nil {
			return err
		}
		w.logEvent("Edit", "kind", "src", "s", st.S, "v", bToken(w.srcPath(st.S)))
	case "delete":
		os.RemoveAll(w.srcPath(st.S))
		w.logEvent("Edit", "kind", "src", "s", st.S, "v", "")
	case "nonedit":
		switch st.Kind {
		case "touch":
			now := time.Now().Add(time.Duration(w.comment+1) * time.Hour)
			for _, s := range w.shape.Sources {
				os.Chtimes(w.srcPath(s), now, now)
				if w.isDir(s) {
					ents, _ := os.ReadDir(w.srcPath(s))
					for _, e := range ents {
						os.Chtimes(filepath.Join(w.srcPath(s), e.Name()), now, now)
					}
				}
			}
		case "rewrite":
			for _, s := range w.shape.Sources {
				if w.generatorOf(s) == "" && !w.isDir(s) {
					b, err := os.ReadFile(w.srcPath(s))
					if err == nil {
						os.Remove(w.srcPath(s))
						os.WriteFile(w.srcPath(s), b, 0644)
					}
				}
			}
		case "comment":
			w.comment++
			if err := w.writeBuildFiles(); err != nil {
				return err
			}
		case "unref":
			for n := range w.shape.Targets {
				w.unref[n]++
			}
			if err := w.writeBuildFiles(); err != nil {
				return err
			}
		}
		w.logEvent("NonEdit", "kind", st.Kind)
	case "reload":
		// what watch mode does after a file change: Reload the same Project
		if w.proj != nil {
			err := w.proj.Reload()
			w.logEvent("Load", "ok", err == nil, "msg", fmt.Sprint(err), "reload", true)
			if err != nil {
				w.proj = nil
			}
		}
	case "fault":
		// replace the sources (or generated files) directory by a regular file: every path
		// below it then fails with ENOTDIR, which is not "does not exist"
		d := filepath.Join(w.dir, st.Kind)
		os.Rename(d, d+".hold")
		os.WriteFile(d, []byte("not a directory"), 0644)
		w.logEvent("Fault", "kind", st.Kind)
	case "unfault":
		d := filepath.Join(w.dir, st.Kind)
		os.Remove(d)
		os.Rename(d+".hold", d)
		w.logEvent("Unfault", "kind", st.Kind)
	case "reshape":
		if c.Shape2 != nil {
			// the project alternates between its two shapes
			prev := w.shape
			if w.shape == c.Shape2 {
				w.shape = &c.Shape
			} else {
				w.shape = c.Shape2
			}
			for n := range w.shape.Targets {
				if w.envVer[n] == 0 {
					w.envVer[n] = 1
				}
			}
			for _, s := range w.shape.Sources {
				if w.generatorOf(s) == "" && w.srcVer[s] == 0 {
					w.srcVer[s] = 1
					w.writeSource(s)
					w.logEvent("Edit", "kind", "src", "s", s, "v", bToken(w.srcPath(s)))
				}
			}
			if err := w.writeBuildFiles(); err != nil {
				return err
			}
			// "pure": the same targets with the same bodies, sources and outputs, only the dependency
			// lists differ -- the rewrite of the build files changes no function
			pure := len(prev.Targets) == len(w.shape.Targets)
			for n, t := range w.shape.Targets {
				o := prev.Targets[n]
				if o == nil || o.Kind != t.Kind || o.Pkg != t.Pkg || o.Always != t.Always ||
					strings.Join(o.Srcs, ",") != strings.Join(t.Srcs, ",") || strings.Join(o.Gens, ",") != strings.Join(t.Gens, ",") {
					pure = false
				}
			}
			w.logEvent("Shape", "cfg", monCfg(w.shape), "pure", pure)
		}
	case "build":
		if st.Crash != nil {
			return w.childBuild(c, st, exe)
		}
		w.build(st)
	}
	return nil
}

// ---- crashing builds run in a child process ------------------------------------------------------

type bChildSpec struct {
	Dir    string   `json:"dir"`
	Shape  *bShape  `json:"shape"`
	Values string   `json:"values"`
	Step   bStep    `json:"step"`
	Log    string   `json:"log"`
	Args   []string `json:"args"`
	// the versions the parent has written so far (a watch step goes on editing from there)
	EnvVer  map[string]int `json:"env_ver,omitempty"`
	SrcVer  map[string]int `json:"src_ver,omitempty"`
	Unref   map[string]int `json:"unref,omitempty"`
	Comment int            `json:"comment,omitempty"`
}

func (w *bWorld) childBuild(c *bCase, st *bStep, exe string) error {
	spec := bChildSpec{Dir: w.dir, Shape: w.shape, Values: w.values, Step: *st, Log: filepath.Join(filepath.Dir(w.dir), filepath.Base(w.dir)+".childlog"), Args: w.flagArgs(),
		EnvVer: w.envVer, SrcVer: w.srcVer, Unref: w.unref, Comment: w.comment}
	os.Remove(spec.Log)
	b, _ := json.Marshal(spec)
	sp := spec.Log + ".spec"
	if err := os.WriteFile(sp, b, 0644); err != nil {
		return err
	}
	defer os.Remove(sp)
	defer os.Remove(spec.Log)
	cmd := exec.Command(exe, "-test.run", "^TestVerifBuildChild$", "-test.timeout", "120s")
	cmd.Env = append(os.Environ(), "VERIF_BUILD_CHILD="+sp)
	out, err := cmd.CombinedOutput()
	code := 0
	if err != nil {
		var ee *exec.ExitError
		if errors.As(err, &ee) {
			code = ee.ExitCode()
		} else {
			return err
		}
	}
	// merge the child's events
	if f, err := os.Open(spec.Log); err == nil {
		sc := bufio.NewScanner(f)
		sc.Buffer(make([]byte, 1<<20), 1<<24)
		for sc.Scan() {
			var e sched.Event
			if json.Unmarshal(sc.Bytes(), &e) == nil {
				ev, _ := e["ev"].(string)
				delete(e, "ev")
				var kv []any
				for k, v := range e {
					kv = append(kv, k, v)
				}
				w.logEvent(ev, kv...)
			}
		}
		f.Close()
	}
	switch code {
	case 0:
	case 3:
		w.logEvent("Crash", "point", st.Crash.Point, "label", st.Crash.Label, "hit", st.Crash.Hit)
	default:
		w.logEvent("ChildError", "code", code, "out", string(out[max(0, len(out)-1500):]))
	}
	return nil
}

type fileRecorder struct {
	f  *os.File
	mu sync.Mutex
}

func TestVerifBuildChild(t *testing.T) {
	sp := os.Getenv("VERIF_BUILD_CHILD")
	if sp == "" {
		t.Skip("not a child")
	}
	b, err := os.ReadFile(sp)
	if err != nil {
		t.Fatal(err)
	}
	var spec bChildSpec
	if err := json.Unmarshal(b, &spec); err != nil {
		t.Fatal(err)
	}
	lf, err := os.OpenFile(spec.Log, os.O_APPEND|os.O_CREATE|os.O_WRONLY, 0644)
	if err != nil {
		t.Fatal(err)
	}
	rec := &sched.Recorder{}
	w := &bWorld{dir: spec.Dir, shape: spec.Shape, values: spec.Values, rec: rec, hits: map[string]int{}, crash: spec.Step.Crash,
		envVer: map[string]int{}, srcVer: map[string]int{}, unref: map[string]int{}, fixedArgs: spec.Args}
	if w.fixedArgs == nil {
		w.fixedArgs = []string{}
	}
	// every event is appended to the log with one write before the action that follows it
	rec.Sink = func(e sched.Event) {
		bb, _ := json.Marshal(e)
		lf.Write(append(bb, '\n'))
	}
	VerifCrash = w.crashPoint
	if spec.Step.Op == "watch" {
		// Project.Watch never returns: it runs here so that it ends with this process
		w.fixedArgs = nil
		for k, v := range spec.EnvVer {
			w.envVer[k] = v
		}
		for k, v := range spec.SrcVer {
			w.srcVer[k] = v
		}
		for k, v := range spec.Unref {
			w.unref[k] = v
		}
		w.comment = spec.Comment
		w.fail = map[string]bool{}
		w.watch(&bCase{Shape: *spec.Shape}, &spec.Step, "")
		lf.Close()
		return
	}
	w.build(&spec.Step)
	lf.Close()
}

// ---- driver --------------------------------------------------------------------------------------

func monCfg(s *bShape) map[string]any {
	ts := map[string]any{}
	for n, t := range s.Targets {
		ts[n] = map[string]any{"deps": nz(t.Deps), "srcs": nz(t.Srcs), "gens": nz(t.Gens), "always": t.Always}
	}
	return map[string]any{"targets": ts, "sources": nz(s.Sources)}
}

func nz(xs []string) []string {
	if xs == nil {
		return []string{}
	}
	return xs
}

func runBuildHistory(c *bCase, steps []bStep, base, exe string) (*bWorld, error) {
	dir, err := os.MkdirTemp(base, "p")
	if err != nil {
		return nil, err
	}
	w := &bWorld{dir: dir, shape: &c.Shape, values: c.Values, envVer: map[string]int{}, srcVer: map[string]int{}, unref: map[string]int{},
		rec: &sched.Recorder{}, hits: map[string]int{}}
	if err := w.setup(); err != nil {
		return nil, err
	}
	// announce the initial tokens
	for n := range w.shape.Targets {
		w.logEvent("Edit", "kind", "env", "t", n, "v", w.envToken(n))
	}
	if c.Shape2 != nil {
		for n := range c.Shape2.Targets {
			if _, ok := w.shape.Targets[n]; !ok {
				w.logEvent("Edit", "kind", "env", "t", n, "v", bValue(w.values, 1))
			}
		}
	}
	for _, s := range w.shape.Sources {
		w.logEvent("Edit", "kind", "src", "s", s, "v", bToken(w.srcPath(s)))
	}
	for i := range steps {
		if err := w.apply(c, &steps[i], exe); err != nil {
			return w, err
		}
	}
	return w, nil
}

// executed sets of the real builds of a trace
func execSets(evs []sched.Event) [][]string {
	var res [][]string
	var cur []string
	in, real := false, false
	for _, e := range evs {
		switch e["ev"] {
		case "BuildBegin":
			in, real = true, e["mode"] != "dry"
			cur = []string{}
		case "ExecEnd":
			if in {
				cur = append(cur, e["l"].(string))
			}
		case "BuildEnd":
			if in && real {
				sort.Strings(cur)
				res = append(res, cur)
			}
			in = false
		}
	}
	return res
}

func TestVerifBuild(t *testing.T) {
	in, out := os.Getenv("VERIF_CASES"), os.Getenv("VERIF_OUT")
	if in == "" || out == "" {
		t.Skip("VERIF_CASES / VERIF_OUT not set")
	}
	exe, err := os.Executable()
	if err != nil {
		t.Fatal(err)
	}
	f, err := os.Open(in)
	if err != nil {
		t.Fatal(err)
	}
	defer f.Close()
	of, err := os.OpenFile(out, os.O_APPEND|os.O_CREATE|os.O_WRONLY, 0644)
	if err != nil {
		t.Fatal(err)
	}
	defer of.Close()
	base, err := os.MkdirTemp("", "verif-build-")
	if err != nil {
		t.Fatal(err)
	}
	defer os.RemoveAll(base)
	shard, nshards := 0, 1
	fmt.Sscanf(os.Getenv("VERIF_SHARD"), "%d/%d", &shard, &nshards)
	sc := bufio.NewScanner(f)
	sc.Buffer(make([]byte, 1<<20), 1<<26)
	idx := -1
	skipUntil := os.Getenv("VERIF_SKIP_UNTIL")
	for sc.Scan() {
		idx++
		if nshards > 1 && idx%nshards != shard {
			continue
		}
		var c bCase
		if err := json.Unmarshal(sc.Bytes(), &c); err != nil {
			t.Fatalf("bad case: %v", err)
		}
		if skipUntil != "" {
			if c.ID == skipUntil {
				skipUntil = ""
			}
			continue
		}
		// the case in flight, for the driver: a fatal error inside dawn kills this process
		os.WriteFile(out+".cur", []byte(c.ID), 0644)
		w, err := runBuildHistory(&c, c.Steps, base, exe)
		tr := &bTrace{ID: c.ID, Cfg: monCfg(&c.Shape), Steps: c.Steps}
		if err != nil {
			tr.Events = []sched.Event{{"ev": "HarnessError", "msg": err.Error()}}
			sched.WriteLine(of, tr)
			continue
		}
		if c.Twin != "" {
			// the same history without the dry runs / collections
			var plain []bStep
			for _, s := range c.Steps {
				if s.Op == "build" && s.Mode == "dry" {
					continue
				}
				s.GC = false
				s.Index = false
				plain = append(plain, s)
			}
			w2, err2 := runBuildHistory(&c, plain, base, exe)
			if err2 == nil {
				w.logEvent("Twin", "kind", c.Twin, "a", execSets(w.rec.Events()), "b", execSets(w2.rec.Events()))
				os.RemoveAll(w2.dir)
			}
		}
		tr.Events = w.rec.Events()
		os.RemoveAll(w.dir)
		if err := sched.WriteLine(of, tr); err != nil {
			t.Fatal(err)
		}
	}
}
