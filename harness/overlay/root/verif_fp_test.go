//go:build verif

package dawn

// Verification harness for function fingerprints (property C08) and for corrupted record
// files (the on-disk half of property C15). Added to package dawn at build time with `go
// test -overlay`. Generated Starlark programs are loaded in child processes (a stack
// overflow is fatal to a Go process), the fingerprint of every target function is computed
// there, and fingerprints of reloads and of edited variants are compared by the parent.

import (
	"bufio"
	"bytes"
	"crypto/sha256"
	"encoding/base64"
	"encoding/hex"
	"encoding/json"
	"fmt"
	"go.starlark.net/starlarkstruct"
	"math/rand"
	"os"
	"os/exec"
	"path/filepath"
	"sort"
	"strconv"
	"strings"
	"testing"
	"time"

	"github.com/pgavlin/dawn/label"
	"github.com/pgavlin/dawn/pickle"
	"go.starlark.net/starlark"
)

type fpVariant struct {
	Name   string            `json:"name"`
	Kind   string            `json:"kind"` // referenced | unreferenced
	Target string            `json:"target"`
	Files  map[string]string `json:"files"`
}

type fpCase struct {
	ID       string            `json:"id"`
	Feature  string            `json:"feature"`
	Files    map[string]string `json:"files"`
	Variants []fpVariant       `json:"variants"`
	Corrupt  bool              `json:"corrupt,omitempty"` // also run the record-corruption experiment
}

type fpResult struct {
	Target  string `json:"target"`
	Outcome string `json:"outcome"`
	FP      string `json:"fp"`
	Msg     string `json:"msg,omitempty"`
	// the pickled environment, and whether dawn's own comparison (diffEnv) finds the environment
	// equal to the one in $VERIF_FP_BASE
	Stamp string `json:"stamp,omitempty"`
	Same  *bool  `json:"same,omitempty"`
}

type fpChildOut struct {
	Load     string     `json:"load"`
	LoadMsg  string     `json:"load_msg,omitempty"`
	Results  []fpResult `json:"results"`
	Run      string     `json:"run,omitempty"`
	RunMsg   string     `json:"run_msg,omitempty"`
	Executed []string   `json:"executed,omitempty"`
}

type fpEvents struct {
	discardEventsT
	evaluated map[string]bool
}

func (e *fpEvents) TargetSucceeded(l *label.Label, changed bool) {
	if changed {
		e.evaluated[l.String()] = true
	}
}
func (e *fpEvents) TargetFailed(l *label.Label, err error) { e.evaluated[l.String()] = true }

// TestVerifFpChild runs in the child: load the project in $VERIF_FP_CHILD, fingerprint
// every function target (and, with $VERIF_FP_RUN, build a target), print one JSON object.
func TestVerifFpChild(t *testing.T) {
	dir := os.Getenv("VERIF_FP_CHILD")
	if dir == "" {
		t.Skip("not a child")
	}
	out := fpChildOut{Load: "ok", Results: []fpResult{}}
	ev := &fpEvents{evaluated: map[string]bool{}}
	emit := func() {
		b, _ := json.Marshal(out)
		fmt.Printf("\nFPCHILD %s\n", b)
	}
	opts := &LoadOptions{Events: ev}
	if b, err := os.ReadFile(filepath.Join(dir, ".fpbuiltins")); err == nil {
		// values the embedding program predeclares (as cmd/dawn predeclares os, sh and host): a
		// struct and a module whose members depend on the file's text
		mode := strings.TrimSpace(string(b))
		opts.Builtins = starlark.StringDict{
			"cfg":   starlarkstruct.FromStringDict(starlarkstruct.Default, starlark.StringDict{"mode": starlark.String(mode), "level": starlark.MakeInt(1)}),
			"tools": &starlarkstruct.Module{Name: "tools", Members: starlark.StringDict{"cc": starlark.String("/usr/bin/" + mode), "n": starlark.MakeInt(1)}},
		}
	}
	proj, err := Load(dir, opts)
	if err != nil {
		out.Load, out.LoadMsg = "error", err.Error()
		emit()
		return
	}
	var names []string
	for n := range proj.targets {
		names = append(names, n)
	}
	sort.Strings(names)
	baseStamps := map[string]string{}
	if bf := os.Getenv("VERIF_FP_BASE"); bf != "" {
		if b, err := os.ReadFile(bf); err == nil {
			json.Unmarshal(b, &baseStamps)
		}
	}
	for _, n := range names {
		f, ok := proj.targets[n].target.(*function)
		if !ok {
			continue
		}
		r := fpResult{Target: n, Outcome: "ok"}
		var buf bytes.Buffer
		if err := pickle.NewEncoder(&buf, newEnvPickler()).Encode(f.function); err != nil {
			r.Outcome, r.Msg = "error", err.Error()
		} else if _, err := functionEnv(f.function); err != nil {
			r.Outcome, r.Msg = "error", err.Error()
		} else {
			sum := sha256.Sum256(buf.Bytes())
			r.FP = hex.EncodeToString(sum[:8])
			r.Stamp = base64.StdEncoding.EncodeToString(buf.Bytes())
			if bs, ok := baseStamps[n]; ok {
				// the decision dawn itself would take: the base environment as the one of the
				// last run, this process's as the current one
				if raw, err := base64.StdEncoding.DecodeString(bs); err == nil {
					if old, err := pickle.NewDecoder(bytes.NewReader(raw), pickle.UnpicklerFunc(envUnpickler)).Decode(); err == nil {
						if cur, err := functionEnv(f.function); err == nil {
							probe := &function{oldEnv: old, newEnv: cur}
							if eq, _, _, err := probe.diffEnv(); err == nil {
								r.Same = &eq
							} else {
								// dawn cannot compare the two environments: the next build of this
								// target fails with this error
								r.Outcome, r.Msg = "error", "comparing with the previous environment: "+err.Error()
							}
						}
					}
				}
			}
		}
		out.Results = append(out.Results, r)
	}
	if tgt := os.Getenv("VERIF_FP_RUN"); tgt != "" {
		l, err := label.Parse(tgt)
		if err == nil {
			err = proj.Run(l, nil)
		}
		if err != nil {
			out.Run, out.RunMsg = "error", err.Error()
		} else {
			out.Run = "ok"
		}
		for n := range ev.evaluated {
			out.Executed = append(out.Executed, n)
		}
		sort.Strings(out.Executed)
	}
	emit()
}

func fpRunChild(exe, dir, run string, base ...map[string]string) (*fpChildOut, string) {
	cmd := exec.Command(exe, "-test.run", "^TestVerifFpChild$", "-test.timeout", "60s")
	cmd.Env = append(os.Environ(), "VERIF_FP_CHILD="+dir, "VERIF_FP_RUN="+run)
	if len(base) > 0 && base[0] != nil {
		bf := filepath.Join(dir, ".fpbase.json")
		b, _ := json.Marshal(base[0])
		os.WriteFile(bf, b, 0644)
		defer os.Remove(bf)
		cmd.Env = append(cmd.Env, "VERIF_FP_BASE="+bf)
	}
	var buf bytes.Buffer
	cmd.Stdout, cmd.Stderr = &buf, &buf
	if err := cmd.Start(); err != nil {
		return nil, "harness: " + err.Error()
	}
	done := make(chan error, 1)
	go func() { done <- cmd.Wait() }()
	select {
	case <-done:
	case <-time.After(40 * time.Second):
		cmd.Process.Kill()
		<-done
		return nil, "timeout"
	}
	for _, line := range strings.Split(buf.String(), "\n") {
		if strings.HasPrefix(line, "FPCHILD ") {
			var o fpChildOut
			if json.Unmarshal([]byte(strings.TrimPrefix(line, "FPCHILD ")), &o) == nil {
				return &o, ""
			}
		}
	}
	s := buf.String()
	kind := "crash"
	if strings.Contains(s, "stack overflow") || strings.Contains(s, "goroutine stack exceeds") {
		kind = "crash"
	}
	if len(s) > 300 {
		s = s[:300]
	}
	return nil, kind + ": " + strings.TrimSpace(s)
}

// fpSame: are the two fingerprints equal -- by dawn's own comparison of the two environments when
// the child could make it, else by the pickled bytes
func fpSame(r fpResult, fps map[string]string) bool {
	if r.Same != nil {
		return *r.Same
	}
	return r.FP == fps[r.Target]
}

func fpWrite(dir string, files map[string]string) error {
	for p, c := range files {
		fp := filepath.Join(dir, filepath.FromSlash(p))
		if err := os.MkdirAll(filepath.Dir(fp), 0755); err != nil {
			return err
		}
		if err := os.WriteFile(fp, []byte(c), 0644); err != nil {
			return err
		}
	}
	return nil
}

func TestVerifFp(t *testing.T) {
	in, out := os.Getenv("VERIF_CASES"), os.Getenv("VERIF_OUT")
	if in == "" || out == "" {
		t.Skip("VERIF_CASES / VERIF_OUT not set")
	}
	exe, _ := os.Executable()
	seed, _ := strconv.ParseInt(os.Getenv("VERIF_SEED"), 10, 64)
	rnd := rand.New(rand.NewSource(seed*41 + 6))
	shard, nshards := 0, 1
	fmt.Sscanf(os.Getenv("VERIF_SHARD"), "%d/%d", &shard, &nshards)
	f, err := os.Open(in)
	if err != nil {
		t.Fatal(err)
	}
	defer f.Close()
	of, err := os.OpenFile(out, os.O_APPEND|os.O_CREATE|os.O_WRONLY, 0644)
	if err != nil {
		t.Fatal(err)
	}
	defer of.Close()
	sc := bufio.NewScanner(f)
	sc.Buffer(make([]byte, 1<<20), 1<<26)
	idx := -1
	for sc.Scan() {
		idx++
		if nshards > 1 && idx%nshards != shard {
			continue
		}
		var c fpCase
		if json.Unmarshal(sc.Bytes(), &c) != nil {
			continue
		}
		var events []map[string]any
		dir := t.TempDir()
		c.Files[".dawnconfig"] = ""
		if err := fpWrite(dir, c.Files); err != nil {
			t.Fatal(err)
		}
		base, crash := fpRunChild(exe, dir, "")
		fps, stamps := map[string]string{}, map[string]string{}
		if base == nil {
			events = append(events, map[string]any{"ev": "Fingerprint", "prog": c.ID, "feature": c.Feature, "target": "*", "outcome": strings.SplitN(crash, ":", 2)[0], "msg": crash})
		} else if base.Load != "ok" {
			events = append(events, map[string]any{"ev": "LoadFailed", "prog": c.ID, "feature": c.Feature, "msg": base.LoadMsg})
		} else {
			for _, r := range base.Results {
				events = append(events, map[string]any{"ev": "Fingerprint", "prog": c.ID, "feature": c.Feature, "target": r.Target, "outcome": r.Outcome, "msg": r.Msg})
				fps[r.Target] = r.FP
				stamps[r.Target] = r.Stamp
			}
			// a second load of the same text in a new process
			again, _ := fpRunChild(exe, dir, "", stamps)
			if again != nil && again.Load == "ok" {
				for _, r := range again.Results {
					if r.Outcome != "ok" && fps[r.Target] != "" {
						events = append(events, map[string]any{"ev": "Fingerprint", "prog": c.ID, "feature": c.Feature + "/reload", "target": r.Target, "outcome": r.Outcome, "msg": r.Msg})
					}
					if r.Outcome == "ok" && fps[r.Target] != "" {
						events = append(events, map[string]any{"ev": "FpPair", "prog": c.ID, "feature": c.Feature, "target": r.Target, "kind": "reload", "equal": fpSame(r, fps)})
					}
				}
			}
			for _, v := range c.Variants {
				vdir := t.TempDir()
				files := map[string]string{}
				for k, x := range c.Files {
					files[k] = x
				}
				for k, x := range v.Files {
					files[k] = x
				}
				fpWrite(vdir, files)
				vo, _ := fpRunChild(exe, vdir, "", stamps)
				if vo == nil || vo.Load != "ok" {
					continue
				}
				for _, r := range vo.Results {
					if r.Target == v.Target && r.Outcome == "ok" && fps[r.Target] != "" {
						events = append(events, map[string]any{"ev": "FpPair", "prog": c.ID, "feature": c.Feature + "/" + v.Name, "target": r.Target, "kind": v.Kind, "equal": fpSame(r, fps)})
					}
				}
			}
			if c.Corrupt {
				events = append(events, fpCorrupt(exe, dir, rnd)...)
			}
		}
		b, _ := json.Marshal(map[string]any{"id": c.ID, "events": events})
		of.Write(append(b, '\n'))
	}
}

// fpCorrupt builds //:default once, then corrupts the persisted record of one target in
// several ways; after each corruption a child process loads the project and builds again.
func fpCorrupt(exe, dir string, rnd *rand.Rand) []map[string]any {
	var events []map[string]any
	first, _ := fpRunChild(exe, dir, "//:default")
	if first == nil || first.Load != "ok" || first.Run != "ok" {
		return nil
	}
	tdir := filepath.Join(dir, ".dawn", "build", "targets")
	ents, _ := os.ReadDir(tdir)
	if len(ents) == 0 {
		return nil
	}
	var victim string
	for _, e := range ents {
		if strings.HasSuffix(e.Name(), "default") {
			victim = filepath.Join(tdir, e.Name())
		}
	}
	if victim == "" {
		victim = filepath.Join(tdir, ents[0].Name())
	}
	orig, err := os.ReadFile(victim)
	if err != nil {
		return nil
	}
	var info targetInfo
	if json.Unmarshal(orig, &info) != nil || info.Data == "" {
		return nil
	}
	stamp := info.Data
	prefix := ""
	if i := strings.IndexByte(stamp, ':'); i >= 0 {
		prefix, stamp = stamp[:i+1], stamp[i+1:]
	}
	raw, err := base64.StdEncoding.DecodeString(stamp)
	if err != nil {
		return nil
	}
	origEnv, err := pickle.NewDecoder(bytes.NewReader(raw), pickle.UnpicklerFunc(envUnpickler)).Decode()
	if err != nil {
		return nil
	}
	benignStamp := func(b []byte) bool {
		same := false
		func() {
			defer func() { recover() }() // an ill-formed decoded value may not even be comparable
			v, err := pickle.NewDecoder(bytes.NewReader(b), pickle.UnpicklerFunc(envUnpickler)).Decode()
			if err != nil || v == nil {
				return
			}
			eq, err := starlark.Equal(v, origEnv)
			same = err == nil && eq
		}()
		return same
	}
	type corruption struct {
		kind   string
		data   []byte
		benign bool
	}
	var cs []corruption
	mk := func(kind string, r []byte) {
		ni := info
		ni.Data = prefix + base64.StdEncoding.EncodeToString(r)
		b, _ := json.Marshal(ni)
		cs = append(cs, corruption{kind, b, benignStamp(r)})
	}
	for i := 0; i < 10; i++ {
		r := append([]byte(nil), raw...)
		r[rnd.Intn(len(r))] ^= 1 << uint(rnd.Intn(8))
		mk("stamp-bitflip", r)
	}
	for _, n := range []int{0, 1, len(raw) / 2, len(raw) - 1} {
		mk("stamp-truncated", raw[:n])
	}
	for i := 0; i < 4; i++ {
		a, b := rnd.Intn(len(raw)), rnd.Intn(len(raw))
		if a > b {
			a, b = b, a
		}
		mk("stamp-spliced", append(append([]byte(nil), raw[:a]...), raw[b:]...))
	}
	// structured damage: every argument-less opcode of the record replaced by another value-producing
	// one (an empty tuple becomes None, a list, a dict, an int), which keeps the pickle decodable
	// while the unpickled shapes are no longer what envUnpickler expects
	{
		subs := map[byte][]byte{')': {'N', ']', '}'}, ']': {'N', ')'}, '}': {'N', ')'}, 'N': {')', ']'}, 0x88: {'N'}, 0x89: {')'}}
		done := 0
		for i := 0; i < len(raw) && done < 40; i++ {
			alts, ok := subs[raw[i]]
			if !ok || (i > 0 && (raw[i-1] == 'K' || raw[i-1] == 'h' || raw[i-1] == 'C' || raw[i-1] == 0x8c)) {
				continue // (skips most argument bytes that merely look like an opcode)
			}
			alt := alts[rnd.Intn(len(alts))]
			r := append([]byte(nil), raw...)
			r[i] = alt
			mk("stamp-opcode-substituted", r)
			done++
		}
	}
	// the stamp's envelope: no run-ID separator, a separator only, an old-format stamp
	for _, d := range []string{strings.TrimSuffix(prefix, ":") + stamp, stamp, ":", prefix, strings.Replace(prefix, ":", "", 1)} {
		ni := info
		ni.Data = d
		b, _ := json.Marshal(ni)
		cs = append(cs, corruption{"stamp-envelope", b, d == stamp})
	}
	mk("stamp-garbage", []byte("\x80\x81\x82 not a pickle"))
	mk("stamp-wrong-shape", []byte("\x8c\x04dawn\x8c\x0cFunctionCode\x93K\x01K\x02K\x03\x87\x81."))
	// base64-level and file-level damage
	{
		ni := info
		ni.Data = prefix + stamp[:len(stamp)/2] + "!!" + stamp[len(stamp)/2:]
		b, _ := json.Marshal(ni)
		cs = append(cs, corruption{"stamp-bad-base64", b, false})
	}
	for _, n := range []int{0, 1, len(orig) / 2, len(orig) - 2} {
		cs = append(cs, corruption{"file-truncated", orig[:n], false})
	}
	cs = append(cs, corruption{"file-garbage", []byte("\x00\x01{{{not json"), false})
	for _, c := range cs {
		os.WriteFile(victim, c.data, 0644)
		o, crash := fpRunChild(exe, dir, "//:default")
		ev := map[string]any{"ev": "Record", "kind": c.kind, "load": "ok", "run": "ok", "executed": false, "benign": c.benign}
		switch {
		case o == nil:
			k := strings.SplitN(crash, ":", 2)[0]
			if k == "crash" {
				k = "panic"
			}
			ev["load"], ev["msg"] = k, crash
		case o.Load != "ok":
			ev["load"], ev["msg"] = "error", o.LoadMsg
		default:
			ev["run"] = o.Run
			for _, n := range o.Executed {
				if strings.HasSuffix(n, ":default") {
					ev["executed"] = true
				}
			}
			if len(c.data) <= 2 {
				// an empty / absent record is "never run": re-execution expected
				ev["benign"] = false
			}
		}
		events = append(events, ev)
		// restore a good state for the next corruption
		os.WriteFile(victim, orig, 0644)
	}
	return events
}
