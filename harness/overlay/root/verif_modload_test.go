//go:build verif

package dawn

// Verification harness for the module loader (property C06). Added to package dawn at
// build time with `go test -overlay`. Each case is a load graph; the harness writes it as
// a real project tree (pN/BUILD.dawn, lib/mK.dawn with load() statements, one target and
// one flag per module) and runs the real dawn.Load under the controlled scheduler.

import (
	"bufio"
	"encoding/json"
	"fmt"
	"math/rand"
	"os"
	"path/filepath"
	"sort"
	"strings"
	"sync"
	"sync/atomic"
	"testing"
	"testing/synctest"
	"time"

	"github.com/pgavlin/dawn/diff"
	"github.com/pgavlin/dawn/internal/zzverif/sched"
	"github.com/pgavlin/dawn/label"
)

type mCfg struct {
	Loads map[string][]string `json:"loads"`
	Roots []string            `json:"roots"`
	Bad   []string            `json:"bad"`
	// how a bad module fails: "" = its body calls fail() after its loads; "missing" = no such
	// file; "syntax" = the file does not parse; "nofetch" = it lives in an unknown project
	Kinds   map[string]string `json:"kinds,omitempty"`
	NoFetch []string          `json:"nofetch"`
	// Spell[m] = "short": loads of the package module m name it by its package ("//m")
	// instead of "//m:BUILD.dawn"
	Spell map[string]string `json:"spell,omitempty"`
}

type mCase struct {
	ID       string   `json:"id"`
	Cfg      mCfg     `json:"cfg"`
	Mode     string   `json:"mode"` // script | random | pct | stress | timed
	Seed     int64    `json:"seed"`
	Schedule []string `json:"schedule,omitempty"`
	Reps     int      `json:"reps,omitempty"`
	Procs    int      `json:"procs,omitempty"`
}

type mTrace struct {
	ID       string        `json:"id"`
	Cfg      mCfg          `json:"cfg"`
	Mode     string        `json:"mode"`
	Seed     int64         `json:"seed"`
	Schedule []string      `json:"schedule"`
	Diverged int           `json:"diverged"`
	Bounded  bool          `json:"bounded,omitempty"`
	Steps    []sched.Event `json:"steps"`
	Events   []sched.Event `json:"events"`
}

func mIsRoot(c *mCfg, m string) bool {
	for _, r := range c.Roots {
		if r == m {
			return true
		}
	}
	return false
}

// mLabelFrom is the label by which loader names module m: Spell["loader>m"] = "rel" makes this one
// loader use a label relative to its own package
func mLabelFrom(c *mCfg, loader, m string) string {
	// (only the root package "p0" can name a helper relative to itself: ".." is not allowed)
	if loader == "p0" && c.Spell[loader+">"+m] == "rel" && !mIsRoot(c, m) && c.Kinds[m] != "nofetch" {
		return "lib:" + m + ".dawn"
	}
	return mLabel(c, m)
}

func mLabel(c *mCfg, m string) string {
	if m == "p0" && mIsRoot(c, m) {
		// the root package
		if c.Spell[m] == "short" {
			return "//"
		}
		return "//:BUILD.dawn"
	}
	if mIsRoot(c, m) {
		if c.Spell[m] == "short" {
			return "//" + m
		}
		return "//" + m + ":BUILD.dawn"
	}
	if c.Kinds[m] == "nofetch" {
		return "example.com/none//lib:" + m + ".dawn"
	}
	return "//lib:" + m + ".dawn"
}

// mWriteTree materialises the load graph as a project tree.
func mWriteTree(dir string, c *mCfg) error {
	if err := os.WriteFile(filepath.Join(dir, ".dawnconfig"), nil, 0644); err != nil {
		return err
	}
	bad := map[string]bool{}
	for _, b := range c.Bad {
		bad[b] = true
	}
	for m, loads := range c.Loads {
		var b strings.Builder
		switch c.Kinds[m] {
		case "missing", "nofetch":
			continue
		case "syntax":
			b.WriteString("def (:\n")
		}
		for _, d := range loads {
			fmt.Fprintf(&b, "load(%q, \"v_%s\")\n", mLabelFrom(c, m, d), d)
		}
		if bad[m] {
			fmt.Fprintf(&b, "fail(\"bad module %s\")\n", m)
		}
		fmt.Fprintf(&b, "v_%s = 1\n", m)
		fmt.Fprintf(&b, "parse_flag(\"f_%s\", default=\"x\")\n", m)
		fmt.Fprintf(&b, "@target(name=\"t_%s\")\ndef _t_%s():\n    pass\n", m, m)
		var path string
		if m == "p0" && mIsRoot(c, m) {
			path = filepath.Join(dir, "BUILD.dawn")
		} else if mIsRoot(c, m) {
			path = filepath.Join(dir, m, "BUILD.dawn")
		} else {
			path = filepath.Join(dir, "lib", m+".dawn")
		}
		if err := os.MkdirAll(filepath.Dir(path), 0755); err != nil {
			return err
		}
		if err := os.WriteFile(path, []byte(b.String()), 0644); err != nil {
			return err
		}
	}
	return nil
}

type mEvents struct {
	discardEventsT
	rec   *sched.Recorder
	names map[string]string // label string -> module name
}

func (e *mEvents) name(l *label.Label) string {
	if n, ok := e.names[l.String()]; ok {
		return n
	}
	return l.String()
}
func (e *mEvents) ModuleLoading(l *label.Label) { e.rec.Log("ModuleLoading", "m", e.name(l)) }
func (e *mEvents) ModuleLoaded(l *label.Label)  { e.rec.Log("ModuleLoaded", "m", e.name(l)) }
func (e *mEvents) ModuleLoadFailed(l *label.Label, err error) {
	e.rec.Log("ModuleLoadFailed", "m", e.name(l), "cyclic", strings.Contains(err.Error(), "cyclic dependency"), "msg", err.Error())
}
func (e *mEvents) TargetEvaluating(label *label.Label, reason string, diff diff.ValueDiff) {}

func mNames(c *mCfg) map[string]string {
	names := map[string]string{}
	for m := range c.Loads {
		l, err := label.Parse(mLabel(c, m))
		if err == nil {
			l.Kind = "module"
			names[l.String()] = m
		}
		names[mLabel(c, m)] = m
		if mIsRoot(c, m) {
			// every spelling of a package's build file names the same module
			for _, sp := range []string{"//" + m, "//" + m + ":BUILD.dawn", "module://" + m, "module://" + m + ":BUILD.dawn"} {
				names[sp] = m
			}
			if m == "p0" {
				for _, sp := range []string{"//", "//:BUILD.dawn", "module://", "module://:BUILD.dawn"} {
					names[sp] = m
				}
			}
		}
	}
	return names
}

// mLoad runs the real Load and logs LoadDone.
func mLoad(dir string, c *mCfg, rec *sched.Recorder) {
	ev := &mEvents{rec: rec, names: mNames(c)}
	proj, err := Load(dir, &LoadOptions{Events: ev})
	if err != nil {
		rec.Log("LoadDone", "err", true, "cyclic", strings.Contains(err.Error(), "cyclic dependency"), "msg", err.Error(),
			"targets", []string{}, "flags", []string{}, "checked", false)
		return
	}
	var targets, flags []string
	for _, t := range proj.Targets() {
		l := t.Label()
		if l.Kind == "" && strings.HasPrefix(l.Name, "t_") {
			targets = append(targets, strings.TrimPrefix(l.Name, "t_"))
		} else {
			targets = append(targets, l.String())
		}
	}
	for _, f := range proj.Flags() {
		n := f.Name
		if i := strings.LastIndex(n, "f_"); i >= 0 {
			n = n[i+2:]
		}
		flags = append(flags, n)
	}
	sort.Strings(targets)
	sort.Strings(flags)
	if targets == nil {
		targets = []string{}
	}
	if flags == nil {
		flags = []string{}
	}
	rec.Log("LoadDone", "err", false, "cyclic", false, "targets", targets, "flags", flags, "checked", true)
}

var (
	mProgress atomic.Int64
	mArmed    atomic.Bool
	mCurMu    sync.Mutex
	mCurID    string
	mCurSched []string
)

func mThreadName(c *mCfg) func(point, lbl string) string {
	names := mNames(c)
	return func(point, lbl string) string {
		if point == "lm.enter" {
			return names[lbl]
		}
		return ""
	}
}

func mObj(names map[string]string, lbl string) string {
	if n, ok := names[lbl]; ok {
		return n
	}
	return lbl
}

func runModControlled(t *testing.T, c *mCase, dir string) *mTrace {
	tr := &mTrace{ID: c.ID, Cfg: c.Cfg, Mode: c.Mode, Seed: c.Seed, Diverged: -1}
	rec := &sched.Recorder{}
	s := sched.New()
	s.Progress = &mProgress
	s.Name = mThreadName(&c.Cfg)
	names := mNames(&c.Cfg)
	VerifYield = s.Yield
	defer func() { VerifYield = nil }()
	r := rand.New(rand.NewSource(c.Seed))
	var pick sched.Picker = &sched.RandomPicker{R: r}
	var script *sched.ScriptPicker
	if c.Mode == "pct" {
		pick = sched.NewPCT(r, 3, 40)
	} else if c.Mode == "script" {
		script = &sched.ScriptPicker{Script: c.Schedule, Fallback: &sched.RandomPicker{R: r}, Diverged: -1}
		pick = script
	}
	var done atomic.Bool
	stuck := false
	func() {
		defer func() {
			if p := recover(); p != nil && !stuck {
				rec.Log("HarnessPanic", "msg", fmt.Sprint(p))
			}
		}()
		synctest.Test(t, func(t *testing.T) {
			go func() {
				s.Bind("main")
				mLoad(dir, &c.Cfg, rec)
				done.Store(true)
			}()
			_, exhausted, livelock := s.Loop(pick, 3000, 10000, nil, func(step int, p *sched.Parked) {
				mCurMu.Lock()
				mCurSched = append(mCurSched, p.Thread)
				mCurMu.Unlock()
				tr.Schedule = append(tr.Schedule, p.Thread)
				tr.Steps = append(tr.Steps, sched.Event{"ev": "Step", "th": p.Thread, "point": p.Point, "obj": mObj(names, p.Label)})
			})
			tr.Bounded = exhausted
			if livelock {
				stuck = true
				rec.Log("Hang", "kind", "livelock: not finished after 13000 fair scheduler steps")
			} else if !done.Load() {
				stuck = true
				rec.Log("Deadlock")
			}
		})
	}()
	if script != nil {
		tr.Diverged = script.Diverged
	}
	rec.Log("End")
	tr.Events = rec.Events()
	return tr
}

// runModTimed re-executes a schedule outside a bubble (used after a stall of the bubble:
// some goroutine is blocked on a mutex, which synctest cannot see through).
func runModTimed(t *testing.T, c *mCase, dir string) *mTrace {
	tr := &mTrace{ID: c.ID, Cfg: c.Cfg, Mode: c.Mode, Seed: c.Seed, Diverged: -1}
	rec := &sched.Recorder{}
	s := sched.New()
	s.Timed = true
	s.Name = mThreadName(&c.Cfg)
	names := mNames(&c.Cfg)
	VerifYield = s.Yield
	var done atomic.Bool
	go func() {
		s.Bind("main")
		mLoad(dir, &c.Cfg, rec)
		done.Store(true)
		s.Activity()
	}()
	finished, div := s.LoopTimed(c.Schedule, 40*time.Millisecond, 3*time.Second, done.Load, func(p *sched.Parked) {
		tr.Schedule = append(tr.Schedule, p.Thread)
		tr.Steps = append(tr.Steps, sched.Event{"ev": "Step", "th": p.Thread, "point": p.Point, "obj": mObj(names, p.Label)})
	})
	tr.Diverged = div
	if !finished {
		rec.Log("Hang", "kind", "every goroutine blocked after all parked goroutines were released", "dump", sched.AllStacks())
	}
	rec.Log("End")
	tr.Events = rec.Events()
	// leave VerifYield installed if goroutines are still blocked; the process exits
	if finished {
		VerifYield = nil
	}
	return tr
}

func runModFree(t *testing.T, c *mCase, dir string) *mTrace {
	tr := &mTrace{ID: c.ID, Cfg: c.Cfg, Mode: c.Mode, Seed: c.Seed, Diverged: -1}
	rec := &sched.Recorder{}
	s := sched.New()
	s.Free, s.FreeSeed, s.FreeNoise = true, uint64(c.Seed), int(c.Seed%3)
	VerifYield = s.Yield
	done := make(chan struct{})
	go func() {
		mLoad(dir, &c.Cfg, rec)
		close(done)
	}()
	select {
	case <-done:
		VerifYield = nil
	case <-time.After(15 * time.Second):
		rec.Log("Hang", "kind", "Load did not return within 15s", "dump", sched.AllStacks())
	}
	rec.Log("End")
	tr.Events = rec.Events()
	return tr
}

func TestVerifModLoad(t *testing.T) {
	in, out := os.Getenv("VERIF_CASES"), os.Getenv("VERIF_OUT")
	if in == "" || out == "" {
		t.Skip("VERIF_CASES / VERIF_OUT not set")
	}
	f, err := os.Open(in)
	if err != nil {
		t.Fatal(err)
	}
	defer f.Close()
	of, err := os.OpenFile(out, os.O_APPEND|os.O_CREATE|os.O_WRONLY, 0644)
	if err != nil {
		t.Fatal(err)
	}
	defer of.Close()
	skipUntil := os.Getenv("VERIF_RESUME_AFTER")
	sched.Watchdog(&mProgress, &mArmed, 4*time.Second, func() {
		mCurMu.Lock()
		defer mCurMu.Unlock()
		sched.WriteLine(of, map[string]any{"id": mCurID, "stall": true, "schedule": mCurSched, "dump": sched.AllStacks()})
	})
	base, err := os.MkdirTemp("", "verif-modload-")
	if err != nil {
		t.Fatal(err)
	}
	defer os.RemoveAll(base)
	sc := bufio.NewScanner(f)
	sc.Buffer(make([]byte, 1<<20), 1<<26)
	n := 0
	for sc.Scan() {
		var c mCase
		if err := json.Unmarshal(sc.Bytes(), &c); err != nil {
			t.Fatalf("bad case: %v", err)
		}
		if skipUntil != "" {
			if c.ID == skipUntil {
				skipUntil = ""
			}
			continue
		}
		if os.Getenv("VERIF_SKIP_CONTROLLED") != "" && c.Mode != "stress" && c.Mode != "timed" {
			continue
		}
		n++
		reps := c.Reps
		if reps < 1 || c.Mode != "stress" {
			reps = 1
		}
		for rep := 0; rep < reps; rep++ {
			cc := c
			if rep > 0 {
				cc.ID = fmt.Sprintf("%s.%d", c.ID, rep)
				cc.Seed += int64(rep)
			}
			dir := filepath.Join(base, fmt.Sprintf("c%d_%d", n, rep))
			if err := os.MkdirAll(dir, 0755); err != nil {
				t.Fatal(err)
			}
			if err := mWriteTree(dir, &cc.Cfg); err != nil {
				t.Fatal(err)
			}
			mCurMu.Lock()
			mCurID, mCurSched = cc.ID, nil
			mCurMu.Unlock()
			var tr *mTrace
			switch cc.Mode {
			case "stress":
				tr = runModFree(t, &cc, dir)
			case "timed":
				tr = runModTimed(t, &cc, dir)
			default:
				mArmed.Store(true)
				tr = runModControlled(t, &cc, dir)
				mArmed.Store(false)
			}
			if err := sched.WriteLine(of, tr); err != nil {
				t.Fatal(err)
			}
			os.RemoveAll(dir)
			hung := false
			for _, e := range tr.Events {
				if e["ev"] == "Hang" && cc.Mode != "script" && cc.Mode != "random" && cc.Mode != "pct" {
					hung = true
				}
			}
			if hung {
				of.Close()
				os.RemoveAll(base)
				os.Exit(5)
			}
		}
	}
}
