//go:build verif

package dawn

// Verification harness for Cache.once (property C20). Added to package dawn at build time
// with `go test -overlay`; not part of the repository. Callers run the real once() through
// its Starlark-visible interface (Cache().once(key, callable)) under the controlled
// scheduler (yields cache.fast / cache.slow) or free-running with a slow callable.

import (
	"bufio"
	"encoding/json"
	"fmt"
	"math/rand"
	"os"
	"runtime"
	"sort"
	"strings"
	"sync"
	"sync/atomic"
	"testing"
	"testing/synctest"
	"time"

	"github.com/pgavlin/dawn/internal/zzverif/sched"
	"go.starlark.net/starlark"
)

type cCfg struct {
	Ops  map[string][]string `json:"ops"`
	Plan map[string][]bool   `json:"plan"`
}

type cCase struct {
	ID       string   `json:"id"`
	Cfg      cCfg     `json:"cfg"`
	Mode     string   `json:"mode"`
	Seed     int64    `json:"seed"`
	Schedule []string `json:"schedule,omitempty"`
	Slow     int      `json:"slow,omitempty"` // microseconds the callable takes (stress)
	Reps     int      `json:"reps,omitempty"`
	Frozen   bool     `json:"frozen,omitempty"` // the cache is frozen before it is used (a module global after its module loaded)
}

type cTrace struct {
	ID       string        `json:"id"`
	Cfg      cCfg          `json:"cfg"`
	Mode     string        `json:"mode"`
	Seed     int64         `json:"seed"`
	Schedule []string      `json:"schedule"`
	Diverged int           `json:"diverged"`
	Steps    []sched.Event `json:"steps"`
	Events   []sched.Event `json:"events"`
}

type cErr string

func (e cErr) Error() string { return string(e) }

type cWorld struct {
	c     *cCase
	rec   *sched.Recorder
	mu    sync.Mutex
	ninv  map[string]int
	cache starlark.Value
	once  starlark.Value
	once2 starlark.Value // a second cache: the key "k~2" of a case is the key "k" of that one
}

func newCWorld(c *cCase, rec *sched.Recorder) (*cWorld, error) {
	w := &cWorld{c: c, rec: rec, ninv: map[string]int{}}
	th := &starlark.Thread{Name: "setup"}
	cv, err := starlark.Call(th, builtin_cache, nil, nil)
	if err != nil {
		return nil, err
	}
	w.cache = cv
	ha, ok := cv.(starlark.HasAttrs)
	if !ok {
		return nil, fmt.Errorf("cache has no attributes")
	}
	o, err := ha.Attr("once")
	if err != nil || o == nil {
		return nil, fmt.Errorf("cache has no once attribute: %v", err)
	}
	w.once = o
	if cv2, err := starlark.Call(th, builtin_cache, nil, nil); err == nil {
		if ha2, ok := cv2.(starlark.HasAttrs); ok {
			if o2, err := ha2.Attr("once"); err == nil && o2 != nil {
				w.once2 = o2
				if c.Frozen {
					cv2.Freeze()
				}
			}
		}
	}
	if c.Frozen {
		// what the interpreter does to every global of a module once the module has loaded:
		// target functions only ever see a frozen cache
		cv.Freeze()
	}
	return w, nil
}

// callable for one call of caller x on key k
func (w *cWorld) callable(x, k string) starlark.Callable {
	return starlark.NewBuiltin("f", func(thread *starlark.Thread, fn *starlark.Builtin, args starlark.Tuple, kwargs []starlark.Tuple) (starlark.Value, error) {
		w.mu.Lock()
		w.ninv[k]++
		n := w.ninv[k]
		w.mu.Unlock()
		ok := true
		if pl := w.c.Cfg.Plan[k]; n <= len(pl) {
			ok = pl[n-1]
		}
		tok := fmt.Sprintf("%s#%d", k, n)
		w.rec.Log("Invoke", "c", x, "key", k, "tok", tok, "ok", ok)
		if w.c.Mode == "stress" && w.c.Slow > 0 {
			deadline := time.Now().Add(time.Duration(w.c.Slow) * time.Microsecond)
			for time.Now().Before(deadline) {
				runtime.Gosched()
			}
		}
		if !ok {
			return nil, cErr(tok)
		}
		return starlark.String(tok), nil
	})
}

func (w *cWorld) caller(x string) {
	th := &starlark.Thread{Name: x}
	for _, k := range w.c.Cfg.Ops[x] {
		w.rec.Log("Call", "c", x, "key", k)
		var v starlark.Value
		var err error
		func() {
			defer func() {
				if p := recover(); p != nil {
					w.rec.Log("Panic", "c", x, "key", k, "msg", fmt.Sprint(p))
					err = cErr("panic")
				}
			}()
			once, real := w.once, k
			if r, ok := strings.CutSuffix(k, "~2"); ok && w.once2 != nil {
				once, real = w.once2, r
			}
			v, err = starlark.Call(th, once, starlark.Tuple{starlark.String(real), w.callable(x, k)}, nil)
		}()
		if err != nil {
			val := err.Error()
			var ce cErr
			if ee, ok := err.(*starlark.EvalError); ok {
				if c, ok2 := ee.Unwrap().(cErr); ok2 {
					ce = c
					val = string(ce)
				}
			} else if c, ok := err.(cErr); ok {
				val = string(c)
			}
			w.rec.Log("Return", "c", x, "key", k, "ok", false, "val", val)
			continue
		}
		val := "?"
		if s, ok := v.(starlark.String); ok {
			val = string(s)
		} else if v != nil {
			val = "other:" + v.String()
		} else {
			val = "nil"
		}
		w.rec.Log("Return", "c", x, "key", k, "ok", true, "val", val)
	}
}

func cCallers(c *cCase) []string {
	var xs []string
	for x := range c.Cfg.Ops {
		xs = append(xs, x)
	}
	sort.Strings(xs)
	return xs
}

var (
	cProgress atomic.Int64
	cArmed    atomic.Bool
	cCurrent  atomic.Value
)

func runCacheControlled(t *testing.T, c *cCase) *cTrace {
	tr := &cTrace{ID: c.ID, Cfg: c.Cfg, Mode: c.Mode, Seed: c.Seed, Diverged: -1}
	rec := &sched.Recorder{}
	w, err := newCWorld(c, rec)
	if err != nil {
		rec.Log("HarnessError", "msg", err.Error())
		tr.Events = rec.Events()
		return tr
	}
	s := sched.New()
	s.Progress = &cProgress
	VerifYield = s.Yield
	defer func() { VerifYield = nil }()
	r := rand.New(rand.NewSource(c.Seed))
	var pick sched.Picker = &sched.RandomPicker{R: r}
	var script *sched.ScriptPicker
	if c.Mode == "pct" {
		pick = sched.NewPCT(r, 2, 20)
	} else if c.Mode == "script" {
		script = &sched.ScriptPicker{Script: c.Schedule, Fallback: &sched.RandomPicker{R: r}, Diverged: -1}
		pick = script
	}
	var running atomic.Int64
	stuck := false
	func() {
		defer func() {
			if p := recover(); p != nil && !stuck {
				rec.Log("HarnessPanic", "msg", fmt.Sprint(p))
			}
		}()
		synctest.Test(t, func(t *testing.T) {
			for _, x := range cCallers(c) {
				x := x
				running.Add(1)
				go func() {
					s.Bind(x)
					// park once before the first call so that start order is scheduled too
					w.caller(x)
					running.Add(-1)
				}()
			}
			_, _, livelock := s.Loop(pick, 2000, 2000, nil, func(step int, p *sched.Parked) {
				tr.Schedule = append(tr.Schedule, p.Thread)
				tr.Steps = append(tr.Steps, sched.Event{"ev": "Step", "th": p.Thread, "point": p.Point, "obj": p.Label})
			})
			if livelock || running.Load() != 0 {
				stuck = true
				rec.Log("Hang", "kind", "deadlock or livelock under the controlled scheduler")
			}
		})
	}()
	if script != nil {
		tr.Diverged = script.Diverged
	}
	tr.Events = rec.Events()
	return tr
}

func runCacheFree(t *testing.T, c *cCase) *cTrace {
	tr := &cTrace{ID: c.ID, Cfg: c.Cfg, Mode: c.Mode, Seed: c.Seed, Diverged: -1}
	rec := &sched.Recorder{}
	w, err := newCWorld(c, rec)
	if err != nil {
		rec.Log("HarnessError", "msg", err.Error())
		tr.Events = rec.Events()
		return tr
	}
	s := sched.New()
	s.Free, s.FreeSeed, s.FreeNoise = true, uint64(c.Seed), int(c.Seed%3)
	VerifYield = s.Yield
	defer func() { VerifYield = nil }()
	var wg sync.WaitGroup
	start := make(chan struct{})
	for _, x := range cCallers(c) {
		x := x
		wg.Add(1)
		go func() {
			defer wg.Done()
			<-start
			w.caller(x)
		}()
	}
	done := make(chan struct{})
	go func() { wg.Wait(); close(done) }()
	close(start)
	select {
	case <-done:
	case <-time.After(20 * time.Second):
		rec.Log("Hang", "dump", sched.AllStacks())
	}
	tr.Events = rec.Events()
	return tr
}

func TestVerifCache(t *testing.T) {
	in, out := os.Getenv("VERIF_CASES"), os.Getenv("VERIF_OUT")
	if in == "" || out == "" {
		t.Skip("VERIF_CASES / VERIF_OUT not set")
	}
	f, err := os.Open(in)
	if err != nil {
		t.Fatal(err)
	}
	defer f.Close()
	of, err := os.OpenFile(out, os.O_APPEND|os.O_CREATE|os.O_WRONLY, 0644)
	if err != nil {
		t.Fatal(err)
	}
	defer of.Close()
	skipUntil := os.Getenv("VERIF_RESUME_AFTER")
	sched.Watchdog(&cProgress, &cArmed, 10*time.Second, func() {
		id, _ := cCurrent.Load().(string)
		sched.WriteLine(of, map[string]any{"id": id, "stall": true, "dump": sched.AllStacks()})
	})
	sc := bufio.NewScanner(f)
	sc.Buffer(make([]byte, 1<<20), 1<<26)
	for sc.Scan() {
		var c cCase
		if err := json.Unmarshal(sc.Bytes(), &c); err != nil {
			t.Fatalf("bad case: %v", err)
		}
		if skipUntil != "" {
			if c.ID == skipUntil {
				skipUntil = ""
			}
			continue
		}
		if os.Getenv("VERIF_SKIP_CONTROLLED") != "" && c.Mode != "stress" && c.Mode != "timed" {
			continue
		}
		cCurrent.Store(c.ID)
		reps := c.Reps
		if reps < 1 || c.Mode != "stress" {
			reps = 1
		}
		for rep := 0; rep < reps; rep++ {
			cc := c
			if rep > 0 {
				cc.ID = fmt.Sprintf("%s.%d", c.ID, rep)
				cc.Seed += int64(rep)
			}
			var tr *cTrace
			if c.Mode == "stress" {
				tr = runCacheFree(t, &cc)
			} else {
				cArmed.Store(true)
				tr = runCacheControlled(t, &cc)
				cArmed.Store(false)
			}
			if err := sched.WriteLine(of, tr); err != nil {
				t.Fatal(err)
			}
			if n := len(tr.Events); n > 0 && tr.Events[n-1]["ev"] == "Hang" && c.Mode == "stress" {
				of.Close()
				os.Exit(5)
			}
		}
	}
}
