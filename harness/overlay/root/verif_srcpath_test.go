//go:build verif

package dawn

// Verification harness for the confinement half of property C12: source and generated-file
// paths always resolve inside the project root. Enumerates (package, path) pairs built
// from the components {a, .., ., ""} in relative, absolute and repeated-separator forms and
// logs repoSourcePath / sourceLabel results, and the record paths of pairs of labels.

import (
	"encoding/json"
	"fmt"
	"os"
	"strings"
	"testing"

	"github.com/pgavlin/dawn/label"
)

func TestVerifSrcPath(t *testing.T) {
	out := os.Getenv("VERIF_OUT")
	if out == "" {
		t.Skip("VERIF_OUT not set")
	}
	of, err := os.OpenFile(out, os.O_APPEND|os.O_CREATE|os.O_WRONLY, 0644)
	if err != nil {
		t.Fatal(err)
	}
	defer of.Close()
	var batch []map[string]any
	nline := 0
	flush := func(force bool) {
		if len(batch) > 0 && (len(batch) >= 400 || force) {
			b, _ := json.Marshal(map[string]any{"id": fmt.Sprintf("srcpath-%d", nline), "events": batch})
			of.Write(append(b, '\n'))
			nline++
			batch = nil
		}
	}
	comps := []string{"a", "..", ".", "", "b"}
	var paths []string
	var rec func(prefix []string, depth int)
	rec = func(prefix []string, depth int) {
		if len(prefix) > 0 {
			p := strings.Join(prefix, "/")
			paths = append(paths, p, "/"+p, "//"+p, p+"/")
		}
		if depth == 4 {
			return
		}
		for _, c := range comps {
			rec(append(append([]string{}, prefix...), c), depth+1)
		}
	}
	rec(nil, 0)
	pkgs := []string{"//", "//a", "//a/b"}
	for _, pkg := range pkgs {
		for _, p := range paths {
			ev := map[string]any{"ev": "SrcPath", "pkg": pkg, "path": p, "fn": "repoSourcePath", "outcome": "error", "result": ""}
			func() {
				defer func() {
					if pp := recover(); pp != nil {
						ev["outcome"] = "panic"
					}
				}()
				r, err := repoSourcePath(pkg, p)
				if err == nil {
					ev["outcome"], ev["result"] = "ok", r
				}
			}()
			batch = append(batch, ev)
			ev2 := map[string]any{"ev": "SrcPath", "pkg": pkg, "path": p, "fn": "sourceLabel", "outcome": "error", "result": ""}
			func() {
				defer func() {
					if pp := recover(); pp != nil {
						ev2["outcome"] = "panic"
					}
				}()
				l, err := sourceLabel(pkg, p)
				if err == nil {
					// the location the label denotes, relative to the root
					ev2["outcome"], ev2["result"] = "ok", strings.TrimPrefix(l.Package, "//")+"/"+l.Name
					// the label itself, and what printing and parsing it again gives
					rec := func(x *label.Label) map[string]any {
						return map[string]any{"kind": x.Kind, "project": x.Project, "pkg": x.Package, "name": x.Name}
					}
					ev2["l"] = rec(l)
					re := map[string]any{"outcome": "error", "l": rec(&label.Label{})}
					if l2, err := label.Parse(l.String()); err == nil {
						re = map[string]any{"outcome": "ok", "l": rec(l2)}
					}
					ev2["re"] = re
				}
			}()
			batch = append(batch, ev2)
			flush(false)
		}
	}
	// record paths: different labels must not share a record
	proj := &Project{root: "/r", work: "/r/.dawn/build"}
	var labels []*label.Label
	for _, s := range []string{"//:a", "//a:a", "//a/b:a", "//a:b", "//a/b:c", "//a:b/c", "source://a:b", "source://a/b:c", "//:a%2Fb", "//a%2Fb:c", "//a:b%2Fc", "//:a/b"} {
		if l, err := label.Parse(s); err == nil {
			labels = append(labels, l)
		}
	}
	for _, a := range labels {
		for _, b := range labels {
			batch = append(batch, map[string]any{"ev": "RecPath", "a": a.String(), "b": b.String(), "pa": proj.targetInfoPath(a), "pb": proj.targetInfoPath(b)})
		}
	}
	flush(true)
}
