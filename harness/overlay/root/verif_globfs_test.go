//go:build verif

package dawn

// Verification harness for the users of glob sets (property C17): the glob() builtin on a
// generated tree and the project's ignore list. Logs, for the TLA+ monitor GlobMon, the
// include/exclude lists, all candidate files and what glob() returned; and for ignore
// lists the package directories and which of them were loaded.

import (
	"encoding/json"
	"fmt"
	"math/rand"
	"os"
	"path/filepath"
	"sort"
	"strconv"
	"strings"
	"testing"

	"go.starlark.net/starlark"
)

func TestVerifGlobFS(t *testing.T) {
	out := os.Getenv("VERIF_OUT")
	if out == "" {
		t.Skip("VERIF_OUT not set")
	}
	seed, _ := strconv.ParseInt(os.Getenv("VERIF_SEED"), 10, 64)
	rnd := rand.New(rand.NewSource(seed*13 + 4))
	nrand, _ := strconv.Atoi(os.Getenv("VERIF_GLOBFS_RANDOM"))
	of, err := os.OpenFile(out, os.O_APPEND|os.O_CREATE|os.O_WRONLY, 0644)
	if err != nil {
		t.Fatal(err)
	}
	defer of.Close()
	var batch []map[string]any
	nline := 0
	flush := func(force bool) {
		if len(batch) > 0 && (len(batch) >= 60 || force) {
			b, _ := json.Marshal(map[string]any{"id": fmt.Sprintf("globfs-%d", nline), "events": batch})
			of.Write(append(b, '\n'))
			nline++
			batch = nil
		}
	}
	dir := t.TempDir()
	files := []string{"a.c", "b.h", "src/a.c", "src/b.c", "src/tests/helper.c", "src/tests/data.txt", "vendor/lib/x.c", "vendor/y.c", ".hidden", "docs/readme.md", "test.c", "ab"}
	for _, f := range files {
		p := filepath.Join(dir, filepath.FromSlash(f))
		os.MkdirAll(filepath.Dir(p), 0755)
		os.WriteFile(p, []byte("x"), 0644)
	}
	os.WriteFile(filepath.Join(dir, "BUILD.dawn"), nil, 0644)
	os.WriteFile(filepath.Join(dir, ".dawnconfig"), nil, 0644)
	all := append([]string{"BUILD.dawn", ".dawnconfig"}, files...)
	sort.Strings(all)
	proj := &Project{root: dir, work: filepath.Join(dir, ".dawn", "build")}
	globB := proj.newBuiltin_glob()
	call := func(include, exclude []string) {
		ev := map[string]any{"ev": "Glob", "include": include, "exclude": exclude, "files": all, "result": []string{}, "err": ""}
		func() {
			defer func() {
				if p := recover(); p != nil {
					ev["err"] = "panic:" + fmt.Sprint(p)
				}
			}()
			th := &starlark.Thread{Name: "glob"}
			th.SetLocal("module", &module{path: filepath.Join(dir, "BUILD.dawn")})
			toList := func(xs []string) *starlark.List {
				vs := make([]starlark.Value, len(xs))
				for i, x := range xs {
					vs[i] = starlark.String(x)
				}
				return starlark.NewList(vs)
			}
			v, err := starlark.Call(th, globB, starlark.Tuple{toList(include)}, []starlark.Tuple{{starlark.String("exclude"), toList(exclude)}})
			if err != nil {
				ev["err"] = err.Error()
				return
			}
			res := []string{}
			it := v.(starlark.Iterable).Iterate()
			defer it.Done()
			var x starlark.Value
			for it.Next(&x) {
				res = append(res, string(x.(starlark.String)))
			}
			sort.Strings(res)
			ev["result"] = res
		}()
		if ev["err"] == "" {
			batch = append(batch, ev)
		} else if strings.HasPrefix(ev["err"].(string), "panic:") {
			batch = append(batch, ev)
		}
		flush(false)
	}
	pool := []string{"*.c", "**/*.c", "**.c", "src/*", "src/**", "**/test*", "vendor", "vendor/**", "*", "**", "?.c", "docs/*.md", ".*", "src/tests", "src/tests/*", "*/*.c", "**/*", "a?", "test.c", "**/lib/**",
		// a question mark is any one character, the separator included
		"src?a.c", "vendor?y.c", "vendor?lib?x.c", "src?tests/*.c", "src/tests?data.txt", "d?cs?readme.md", "???/?.c"}
	for _, inc := range pool {
		call([]string{inc}, []string{})
		for _, exc := range pool {
			call([]string{inc}, []string{exc})
		}
	}
	for i := 0; i < nrand; i++ {
		pick := func(n int) []string {
			xs := make([]string, n)
			for j := range xs {
				xs[j] = pool[rnd.Intn(len(pool))]
			}
			return xs
		}
		call(pick(1+rnd.Intn(3)), pick(rnd.Intn(3)))
	}
	flush(true)

	// ignore lists: which package directories get loaded
	pkgDirs := []string{"", "a", "a/b", "a/b/c", "ab", "b", "b/a", "vendor", "vendor/x", "x.y"}
	idir := t.TempDir()
	for _, d := range pkgDirs {
		p := filepath.Join(idir, filepath.FromSlash(d))
		os.MkdirAll(p, 0755)
		name := "t_" + strings.NewReplacer("/", "_", ".", "_").Replace(d)
		os.WriteFile(filepath.Join(p, "BUILD.dawn"), []byte(fmt.Sprintf("@target(name=%q)\ndef _t():\n    pass\n", name)), 0644)
	}
	ipool := []string{"a", "a/*", "a/**", "*", "**", "b", "*/a", "vendor", "ve*", "?", "a?", "x.y", "a/b", "**/c", "*/*",
		// the separator is a character like any other: a pattern that ends in one matches no directory
		"a/", "vendor/", "a/b/", "*/", "**/"}
	try := func(pats []string) {
		quoted := make([]string, len(pats))
		for i, p := range pats {
			quoted[i] = strconv.Quote(p)
		}
		os.WriteFile(filepath.Join(idir, ".dawnconfig"), []byte("ignore = ["+strings.Join(quoted, ", ")+"]\n"), 0644)
		os.RemoveAll(filepath.Join(idir, ".dawn"))
		ev := map[string]any{"ev": "Ignore", "pats": pats, "dirs": pkgDirs, "loaded": []string{}, "err": ""}
		func() {
			defer func() {
				if p := recover(); p != nil {
					ev["err"] = "panic:" + fmt.Sprint(p)
				}
			}()
			pr, err := Load(idir, nil)
			if err != nil {
				ev["err"] = err.Error()
				return
			}
			loaded := []string{}
			for _, tg := range pr.Targets() {
				loaded = append(loaded, strings.TrimPrefix(tg.Label().Package, "//"))
			}
			sort.Strings(loaded)
			ev["loaded"] = loaded
		}()
		batch = append(batch, ev)
		flush(false)
	}
	for _, a := range ipool {
		try([]string{a})
		for _, b := range ipool {
			if a < b {
				try([]string{a, b})
			}
		}
	}
	flush(true)
}
