//go:build verif

package pickle

// Verification harness for the pickle codec (properties C07, C15). Added to package pickle
// at build time with `go test -overlay`. Cases come from the TLA+ model (every heap / op
// string of its exhaustive scope) and from the harness itself (boundary integers, string
// and container size classes scaled to the real batch size, byte-level corruption). Each
// real Encode/Decode call is logged for the TLA+ monitor PickleMon.

import (
	"bufio"
	"bytes"
	"encoding/binary"
	"encoding/hex"
	"encoding/json"
	"fmt"
	"math"
	"math/big"
	"math/rand"
	"os"
	"strconv"
	"strings"
	"testing"
	"time"
	"unicode/utf8"

	"go.starlark.net/starlark"
)

// ---- host objects -------------------------------------------------------------------------

type hObj struct {
	mod, name string
	args      starlark.Tuple
}

func (h *hObj) String() string        { return "hobj" }
func (h *hObj) Type() string          { return "hobj" }
func (h *hObj) Freeze()               {}
func (h *hObj) Truth() starlark.Bool  { return starlark.True }
func (h *hObj) Hash() (uint32, error) { return starlark.String(h.mod + "." + h.name).Hash() }

func vPickler(x starlark.Value) (string, string, starlark.Tuple, error) {
	if h, ok := x.(*hObj); ok {
		return h.mod, h.name, h.args, nil
	}
	return "", "", nil, ErrCannotPickle
}

func vUnpickler(module, name string, args starlark.Tuple) (starlark.Value, error) {
	return &hObj{mod: module, name: name, args: args}, nil
}

// ---- canonical form -------------------------------------------------------------------------

type cState struct {
	ids map[any]int
}

func strTok(s string) string {
	if utf8.ValidString(s) {
		return s
	}
	return "\x00hex:" + hex.EncodeToString([]byte(s))
}

func floatTok(f float64) string {
	if f == 0 && math.Signbit(f) {
		return "-0"
	}
	return strconv.FormatFloat(f, 'g', -1, 64)
}

func canon(v starlark.Value, st *cState) map[string]any {
	atom := func(t, s string) map[string]any { return map[string]any{"t": t, "v": s} }
	seq := func(vs []starlark.Value) []any {
		out := make([]any, len(vs))
		for i, x := range vs {
			out[i] = canon(x, st)
		}
		return out
	}
	container := func(key any, t string, items func() []starlark.Value) map[string]any {
		if id, ok := st.ids[key]; ok {
			return map[string]any{"t": "ref", "id": id}
		}
		id := len(st.ids) + 1
		st.ids[key] = id
		return map[string]any{"t": t, "id": id, "items": seq(items())}
	}
	switch x := v.(type) {
	case nil:
		return atom("nil", "")
	case starlark.NoneType:
		return atom("none", "")
	case starlark.Bool:
		if x {
			return atom("bool", "True")
		}
		return atom("bool", "False")
	case starlark.Int:
		return atom("int", x.String())
	case starlark.Float:
		return atom("float", floatTok(float64(x)))
	case starlark.String:
		return atom("str", strTok(string(x)))
	case starlark.Bytes:
		return atom("bytes", hex.EncodeToString([]byte(x)))
	case starlark.Tuple:
		return map[string]any{"t": "tuple", "items": seq(x)}
	case *starlark.List:
		return container(x, "list", func() []starlark.Value {
			out := make([]starlark.Value, x.Len())
			for i := range out {
				out[i] = x.Index(i)
			}
			return out
		})
	case *starlark.Dict:
		return container(x, "dict", func() []starlark.Value {
			var out []starlark.Value
			for _, kv := range x.Items() {
				out = append(out, kv[0], kv[1])
			}
			return out
		})
	case *starlark.Set:
		return container(x, "set", func() []starlark.Value { return x.Elems() })
	case *hObj:
		return map[string]any{"t": "host", "mod": x.mod, "name": x.name, "items": seq(x.args)}
	case markT:
		return map[string]any{"t": "mark"}
	case *global:
		return map[string]any{"t": "global", "mod": x.module, "name": x.name}
	}
	return atom("other", v.Type())
}

func canonOf(v starlark.Value) map[string]any { return canon(v, &cState{ids: map[any]int{}}) }

// ---- recipes from the model --------------------------------------------------------------------

type rItem struct {
	T  string `json:"t"`
	V  string `json:"v"`
	ID int    `json:"id"`
}

type rNode struct {
	T    string  `json:"t"`
	Kids []rItem `json:"kids"`
	Mod  string  `json:"mod"`
	Name string  `json:"name"`
}

type rHeap struct {
	Root  rItem   `json:"root"`
	Nodes []rNode `json:"nodes"`
}

// build constructs the real Starlark value of a heap recipe. Immutable nodes are built on
// demand (they cannot be cyclic); mutable ones are allocated first and filled afterwards.
func (h *rHeap) build() (starlark.Value, error) {
	vals := make([]starlark.Value, len(h.Nodes)+1)
	for i, n := range h.Nodes {
		switch n.T {
		case "list":
			vals[i+1] = starlark.NewList(nil)
		case "dict":
			vals[i+1] = starlark.NewDict(0)
		case "set":
			vals[i+1] = starlark.NewSet(0)
		}
	}
	var item func(x rItem, depth int) (starlark.Value, error)
	var node func(id, depth int) (starlark.Value, error)
	item = func(x rItem, depth int) (starlark.Value, error) {
		switch x.T {
		case "node":
			return node(x.ID, depth)
		case "none":
			return starlark.None, nil
		case "bool":
			return starlark.Bool(x.V == "True"), nil
		case "int":
			var b big.Int
			if _, ok := b.SetString(x.V, 10); !ok {
				return nil, fmt.Errorf("bad int %q", x.V)
			}
			return starlark.MakeBigInt(&b), nil
		case "str":
			return starlark.String(x.V), nil
		case "bytes":
			return starlark.Bytes(x.V), nil
		case "float":
			f, err := strconv.ParseFloat(x.V, 64)
			return starlark.Float(f), err
		}
		return nil, fmt.Errorf("bad item type %q", x.T)
	}
	node = func(id, depth int) (starlark.Value, error) {
		if vals[id] != nil {
			return vals[id], nil
		}
		if depth > len(h.Nodes)+2 {
			return nil, fmt.Errorf("cyclic immutable value")
		}
		n := h.Nodes[id-1]
		kids := make(starlark.Tuple, len(n.Kids))
		for i, k := range n.Kids {
			v, err := item(k, depth+1)
			if err != nil {
				return nil, err
			}
			kids[i] = v
		}
		if n.T == "tuple" {
			vals[id] = kids
		} else {
			vals[id] = &hObj{mod: n.Mod, name: n.Name, args: kids}
		}
		return vals[id], nil
	}
	for i, n := range h.Nodes {
		id := i + 1
		switch n.T {
		case "list":
			for _, k := range n.Kids {
				v, err := item(k, 0)
				if err != nil {
					return nil, err
				}
				vals[id].(*starlark.List).Append(v)
			}
		case "set":
			for _, k := range n.Kids {
				v, err := item(k, 0)
				if err != nil {
					return nil, err
				}
				if err := vals[id].(*starlark.Set).Insert(v); err != nil {
					return nil, err
				}
			}
		case "dict":
			for j := 0; j+1 < len(n.Kids); j += 2 {
				k, err := item(n.Kids[j], 0)
				if err != nil {
					return nil, err
				}
				v, err := item(n.Kids[j+1], 0)
				if err != nil {
					return nil, err
				}
				if err := vals[id].(*starlark.Dict).SetKey(k, v); err != nil {
					return nil, err
				}
			}
		}
	}
	return item(h.Root, 0)
}

// ---- byte stream <-> ops -------------------------------------------------------------------------

type op = map[string]any

// parseOps lexes a pickle byte stream into the op records of Pickle.tla. ok2 is false when
// a declared length exceeds the input (outside the domain of C15).
func parseOps(b []byte) (ops []op, bounded bool) {
	bounded = true
	i := 0
	need := func(n int) bool { return i+n <= len(b) }
	for i < len(b) {
		c := b[i]
		i++
		simple := map[byte]string{opMARK: "MARK", opSTOP: "STOP", opMEMOIZE: "MEMOIZE", opNONE: "NONE", opNEWTRUE: "TRUE", opNEWFALSE: "FALSE",
			opEMPTY_LIST: "EMPTY_LIST", opAPPEND: "APPEND", opAPPENDS: "APPENDS", opEMPTY_TUPLE: "EMPTY_TUPLE", opTUPLE1: "TUPLE1",
			opTUPLE2: "TUPLE2", opTUPLE3: "TUPLE3", opTUPLE: "TUPLE", opEMPTY_DICT: "EMPTY_DICT", opSETITEMS: "SETITEMS",
			opEMPTY_SET: "EMPTY_SET", opADDITEMS: "ADDITEMS", opSTACK_GLOBAL: "STACK_GLOBAL", opNEWOBJ: "NEWOBJ"}
		if name, ok := simple[c]; ok {
			ops = append(ops, op{"op": name})
			if c == opSTOP {
				return
			}
			continue
		}
		str := func(name string, lenBytes int) bool {
			if !need(lenBytes) {
				ops = append(ops, op{"op": "EOF"})
				return false
			}
			n := 0
			if lenBytes == 1 {
				n = int(b[i])
			} else {
				n = int(binary.LittleEndian.Uint32(b[i:]))
			}
			i += lenBytes
			if !need(n) {
				if n > len(b) {
					bounded = false
				}
				ops = append(ops, op{"op": "EOF"})
				return false
			}
			s := string(b[i : i+n])
			i += n
			if name == "BYTES" {
				ops = append(ops, op{"op": name, "v": hex.EncodeToString([]byte(s))})
			} else {
				ops = append(ops, op{"op": name, "v": strTok(s)})
			}
			return true
		}
		switch c {
		case opBINGET:
			if !need(1) {
				ops = append(ops, op{"op": "EOF"})
				return
			}
			ops = append(ops, op{"op": "BINGET", "i": int(b[i])})
			i++
		case opLONG_BINGET:
			if !need(4) {
				ops = append(ops, op{"op": "EOF"})
				return
			}
			ops = append(ops, op{"op": "BINGET", "i": min(int(binary.LittleEndian.Uint32(b[i:])), 1000000000)})
			i += 4
		case opBININT1:
			if !need(1) {
				ops = append(ops, op{"op": "EOF"})
				return
			}
			ops = append(ops, op{"op": "INT", "v": strconv.Itoa(int(b[i]))})
			i++
		case opBININT2:
			if !need(2) {
				ops = append(ops, op{"op": "EOF"})
				return
			}
			ops = append(ops, op{"op": "INT", "v": strconv.Itoa(int(b[i]) | int(b[i+1])<<8)})
			i += 2
		case opBININT:
			if !need(4) {
				ops = append(ops, op{"op": "EOF"})
				return
			}
			ops = append(ops, op{"op": "INT", "v": strconv.Itoa(int(int32(binary.LittleEndian.Uint32(b[i:]))))})
			i += 4
		case opINT:
			j := bytes.IndexByte(b[i:], '\n')
			if j < 0 {
				ops = append(ops, op{"op": "EOF"})
				return
			}
			var x big.Int
			if err := x.UnmarshalText(b[i : i+j]); err != nil {
				ops = append(ops, op{"op": "INT", "v": "?"})
			} else {
				ops = append(ops, op{"op": "INT", "v": x.String()})
			}
			i += j + 1
		case opBINFLOAT:
			if !need(8) {
				ops = append(ops, op{"op": "EOF"})
				return
			}
			ops = append(ops, op{"op": "FLOAT", "v": floatTok(math.Float64frombits(binary.LittleEndian.Uint64(b[i:])))})
			i += 8
		case opSHORT_BINUNICODE:
			if !str("STR", 1) {
				return
			}
		case opBINUNICODE:
			if !str("STR", 4) {
				return
			}
		case opSHORT_BINBYTES:
			if !str("BYTES", 1) {
				return
			}
		case opBINBYTES:
			if !str("BYTES", 4) {
				return
			}
		default:
			ops = append(ops, op{"op": "BAD"})
			return
		}
	}
	ops = append(ops, op{"op": "EOF"})
	return
}

// serialise turns model ops into bytes.
func serialise(ops []op) []byte {
	var b bytes.Buffer
	codes := map[string]byte{"MARK": opMARK, "STOP": opSTOP, "MEMOIZE": opMEMOIZE, "NONE": opNONE, "TRUE": opNEWTRUE, "FALSE": opNEWFALSE,
		"EMPTY_LIST": opEMPTY_LIST, "APPEND": opAPPEND, "APPENDS": opAPPENDS, "EMPTY_TUPLE": opEMPTY_TUPLE, "TUPLE1": opTUPLE1,
		"TUPLE2": opTUPLE2, "TUPLE3": opTUPLE3, "TUPLE": opTUPLE, "EMPTY_DICT": opEMPTY_DICT, "SETITEMS": opSETITEMS,
		"EMPTY_SET": opEMPTY_SET, "ADDITEMS": opADDITEMS, "STACK_GLOBAL": opSTACK_GLOBAL, "NEWOBJ": opNEWOBJ}
	for _, o := range ops {
		name, _ := o["op"].(string)
		if c, ok := codes[name]; ok {
			b.WriteByte(c)
			continue
		}
		switch name {
		case "BINGET":
			b.WriteByte(opBINGET)
			b.WriteByte(byte(int(o["i"].(float64))))
		case "INT":
			n, _ := strconv.Atoi(o["v"].(string))
			b.WriteByte(opBININT1)
			b.WriteByte(byte(n))
		case "STR":
			s := o["v"].(string)
			b.WriteByte(opSHORT_BINUNICODE)
			b.WriteByte(byte(len(s)))
			b.WriteString(s)
		default:
			b.WriteByte(0x00)
		}
	}
	return b.Bytes()
}

// ---- calls -------------------------------------------------------------------------------------

// hung is set when a real call did not return: the stuck goroutine cannot be stopped (and may
// allocate without bound), so the driver stops issuing calls, reports, and lets the process end.
var hung bool

func guard(f func()) (res string) {
	done := make(chan string, 1)
	go func() {
		defer func() {
			if p := recover(); p != nil {
				done <- "panic:" + fmt.Sprint(p)
			}
		}()
		f()
		done <- ""
	}()
	select {
	case r := <-done:
		return r
	case <-time.After(5 * time.Second):
		hung = true
		return "timeout"
	}
}

func roundTrip(v starlark.Value) map[string]any {
	ev := map[string]any{"ev": "RoundTrip", "v": canonOf(v), "ops": []op{}, "w": map[string]any{"t": "nil", "v": ""}, "enc": "", "dec": ""}
	var buf bytes.Buffer
	var err error
	if r := guard(func() { err = NewEncoder(&buf, PicklerFunc(vPickler)).Encode(v) }); r != "" {
		ev["enc"] = r
		return ev
	}
	if err != nil {
		ev["enc"] = "error:" + err.Error()
		return ev
	}
	ops, _ := parseOps(buf.Bytes())
	ev["ops"] = ops
	var w starlark.Value
	if r := guard(func() { w, err = NewDecoder(bytes.NewReader(buf.Bytes()), UnpicklerFunc(vUnpickler)).Decode() }); r != "" {
		ev["dec"] = r
		return ev
	}
	if err != nil {
		ev["dec"] = "error:" + err.Error()
		return ev
	}
	ev["w"] = canonOf(w)
	return ev
}

func decodeBytes(b []byte, unp string) map[string]any {
	ops, bounded := parseOps(b)
	if !bounded {
		return nil
	}
	var u Unpickler
	if unp == "generic" {
		u = UnpicklerFunc(vUnpickler)
	}
	var v starlark.Value
	var err error
	outcome := ""
	if r := guard(func() { v, err = NewDecoder(bytes.NewReader(b), u).Decode() }); r != "" {
		outcome = strings.SplitN(r, ":", 2)[0]
	} else if err != nil {
		outcome = "error"
	} else if v == nil {
		outcome = "nil"
	} else {
		outcome = "value"
		// a value is a value all the way down: no missing (nil) element anywhere inside it
		var holes bool
		if r := guard(func() { holes = hasNil(canonOf(v)) }); r != "" || holes {
			outcome = "a value with missing (nil) parts"
		}
	}
	return map[string]any{"ev": "Decode", "ops": ops, "outcome": outcome, "unpickler": unp, "hex": hex.EncodeToString(b[:min(len(b), 64)])}
}

func hasNil(c any) bool {
	switch x := c.(type) {
	case map[string]any:
		if x["t"] == "nil" {
			return true
		}
		for _, v := range x {
			if hasNil(v) {
				return true
			}
		}
	case []any:
		for _, v := range x {
			if hasNil(v) {
				return true
			}
		}
	}
	return false
}

// instrs is the whole opcode table of pickle protocols 0-5, each opcode with small well-formed
// arguments, plus a few byte values that are no opcode at all.
func instrs() [][]byte {
	var out [][]byte
	add := func(op byte, args ...string) {
		if len(args) == 0 {
			out = append(out, []byte{op})
		}
		for _, a := range args {
			out = append(out, append([]byte{op}, a...))
		}
	}
	for _, c := range []byte("(012NQRabdel]ost)u}") {
		add(c)
	}
	for _, c := range []byte{0x81, 0x85, 0x86, 0x87, 0x88, 0x89, 0x8f, 0x90, 0x91, 0x92, 0x93, 0x94, 0x97, 0x98, 0x00, 0x7f, 0xff} {
		add(c)
	}
	for _, c := range []byte("FILPSVgp") { // newline-terminated argument
		add(c, "0\n", "1\n")
	}
	add('c', "m\nn\n")
	add('i', "m\nn\n")
	for _, c := range []byte{'K', 'h', 'q', 0x80, 0x82} { // one-byte argument
		add(c, "\x00", "\x01")
	}
	for _, c := range []byte{'M', 0x83} {
		add(c, "\x00\x00", "\x01\x00")
	}
	for _, c := range []byte{'J', 'j', 'r', 0x84} {
		add(c, "\x00\x00\x00\x00", "\x01\x00\x00\x00")
	}
	add('G', "\x00\x00\x00\x00\x00\x00\x00\x00")
	add(0x95, "\x00\x00\x00\x00\x00\x00\x00\x00", "\x02\x00\x00\x00\x00\x00\x00\x00")
	for _, c := range []byte{'U', 'C', 0x8c, 0x8a} { // one-byte length
		add(c, "\x00", "\x01a")
	}
	for _, c := range []byte{'T', 'X', 'B', 0x8b} { // four-byte length
		add(c, "\x00\x00\x00\x00", "\x01\x00\x00\x00a")
	}
	for _, c := range []byte{0x8d, 0x8e, 0x96} { // eight-byte length
		add(c, "\x00\x00\x00\x00\x00\x00\x00\x00", "\x01\x00\x00\x00\x00\x00\x00\x00a")
	}
	return out
}

// ---- harness-generated values ---------------------------------------------------------------------

func bigInt(s string) starlark.Value {
	var b big.Int
	b.SetString(s, 10)
	return starlark.MakeBigInt(&b)
}

func container(kind string, n int, elem func(i int) starlark.Value) starlark.Value {
	switch kind {
	case "list":
		l := starlark.NewList(nil)
		for i := 0; i < n; i++ {
			l.Append(elem(i))
		}
		return l
	case "tuple":
		t := make(starlark.Tuple, n)
		for i := range t {
			t[i] = elem(i)
		}
		return t
	case "set":
		s := starlark.NewSet(n)
		for i := 0; i < n; i++ {
			s.Insert(elem(i))
		}
		return s
	default:
		d := starlark.NewDict(n)
		for i := 0; i < n; i++ {
			d.SetKey(elem(i), starlark.MakeInt(i))
		}
		return d
	}
}

// wrap nests x at a position of an enclosing container
func wrap(how string, x starlark.Value) starlark.Value {
	switch how {
	case "list1":
		return starlark.NewList([]starlark.Value{x})
	case "list2":
		return starlark.NewList([]starlark.Value{x, starlark.MakeInt(7)})
	case "list0":
		return starlark.NewList([]starlark.Value{starlark.String("a"), x})
	case "tuple1":
		return starlark.Tuple{x}
	case "tuple3":
		return starlark.Tuple{starlark.None, x, starlark.True}
	case "dictv":
		d := starlark.NewDict(1)
		d.SetKey(starlark.String("k"), x)
		return d
	case "dict2":
		d := starlark.NewDict(2)
		d.SetKey(starlark.String("k"), x)
		d.SetKey(starlark.String("j"), starlark.MakeInt(1))
		return d
	case "host":
		return &hObj{mod: "m", name: "n", args: starlark.Tuple{x, starlark.MakeInt(3)}}
	case "deep":
		return starlark.NewList([]starlark.Value{starlark.Tuple{starlark.NewList([]starlark.Value{x})}})
	case "twice":
		return starlark.NewList([]starlark.Value{x, x})
	}
	return x
}

func ownValues(tier string, rnd *rand.Rand) []starlark.Value {
	var vs []starlark.Value
	for _, s := range []string{"0", "1", "-1", "255", "256", "257", "65535", "65536", "65537", "16711935", "-255", "-256", "-65536",
		"2147483647", "2147483648", "-2147483648", "-2147483649", "4294967295", "4294967296", "9223372036854775807", "9223372036854775808",
		"-9223372036854775808", "-9223372036854775809", "18446744073709551616", "340282366920938463463374607431768211456"} {
		vs = append(vs, bigInt(s), starlark.Tuple{bigInt(s), bigInt(s)})
	}
	for _, f := range []float64{0, math.Copysign(0, -1), 1.5, -2.25, math.MaxFloat64, math.SmallestNonzeroFloat64, math.Inf(1), math.Inf(-1), 1e300, 3.141592653589793} {
		vs = append(vs, starlark.Float(f))
	}
	for _, n := range []int{0, 1, 2, 255, 256, 257, 65535, 65536, 70000} {
		vs = append(vs, starlark.String(strings.Repeat("x", n)), starlark.Bytes(strings.Repeat("\x80", n)))
	}
	vs = append(vs, starlark.String("héllo, 世界"), starlark.String("a\x00b"), starlark.Bytes("\x00\xff"), starlark.String("\xff\xfe"))
	// equal text under different types, and the same text many times
	for _, txt := range []string{"", "a", "abc", "abcd", "a longer piece of text", strings.Repeat("z", 300)} {
		s, b := starlark.String(txt), starlark.Bytes(txt)
		vs = append(vs, starlark.Tuple{s, b}, starlark.Tuple{b, s}, starlark.NewList([]starlark.Value{s, b, s, b, s}),
			starlark.Tuple{s, starlark.Tuple{b, s}, starlark.NewList([]starlark.Value{b})})
		d := starlark.NewDict(2)
		d.SetKey(b, starlark.MakeInt(1))
		d.SetKey(s, starlark.MakeInt(2))
		vs = append(vs, d, starlark.Tuple{d, s, b})
		if n, err := strconv.Atoi("7"); err == nil {
			vs = append(vs, starlark.Tuple{starlark.String("7"), starlark.MakeInt(n), starlark.Bytes("7"), starlark.Float(7)})
		}
		set := starlark.NewSet(2)
		set.Insert(s)
		set.Insert(b)
		vs = append(vs, set)
		vs = append(vs, &hObj{mod: txt, name: txt, args: starlark.Tuple{s, b}}, &hObj{mod: "m", name: "n", args: starlark.Tuple{starlark.String("m"), starlark.Bytes("n"), starlark.String("n")}})
	}
	// values that compare equal as Go map keys yet are different values, side by side
	{
		pz, nz := starlark.Float(0), starlark.Float(math.Copysign(0, -1))
		vs = append(vs, starlark.Tuple{pz, nz}, starlark.Tuple{nz, pz}, starlark.Tuple{nz, nz, pz, pz}, starlark.NewList([]starlark.Value{pz, nz, starlark.MakeInt(0)}),
			starlark.Tuple{starlark.MakeInt(0), nz, pz}, starlark.Tuple{starlark.Tuple{pz}, starlark.Tuple{nz}},
			starlark.Tuple{starlark.Float(1), starlark.MakeInt(1), starlark.Float(1)}, starlark.Tuple{starlark.MakeInt(1), starlark.Float(1)})
		d := starlark.NewDict(2)
		d.SetKey(starlark.String("p"), pz)
		d.SetKey(starlark.String("n"), nz)
		vs = append(vs, d)
	}
	// tuples that are slices of one another (they share their storage)
	{
		whole := starlark.Tuple{starlark.String("a"), starlark.String("b"), starlark.String("c"), starlark.String("d")}
		vs = append(vs, starlark.Tuple{whole, whole[:3]}, starlark.Tuple{whole[:2], whole}, starlark.NewList([]starlark.Value{whole[:1], whole[:3], whole, whole[1:]}),
			starlark.Tuple{whole[:3], whole[:3]})
	}
	sizes := []int{0, 1, 2, 3, 4, 5, 999, 1000, 1001, 2000, 2001}
	if tier == "thorough" {
		sizes = append(sizes, 3001, 5000)
	}
	wraps := []string{"", "list1", "list2", "list0", "tuple1", "tuple3", "dictv", "dict2", "host", "deep", "twice"}
	for _, kind := range []string{"list", "tuple", "set", "dict"} {
		for _, n := range sizes {
			for _, w := range wraps {
				if n > 5 && tier != "thorough" && rnd.Intn(3) != 0 && w != "list1" && w != "" {
					continue
				}
				vs = append(vs, wrap(w, container(kind, n, func(i int) starlark.Value { return starlark.MakeInt(i * 3) })))
			}
		}
	}
	// a big container whose elements are shared / are containers themselves
	shared := starlark.NewList([]starlark.Value{starlark.String("s")})
	vs = append(vs, container("list", 1500, func(i int) starlark.Value { return shared }))
	vs = append(vs, wrap("list2", container("list", 1001, func(i int) starlark.Value {
		if i%500 == 0 {
			return starlark.NewList([]starlark.Value{starlark.MakeInt(i)})
		}
		return starlark.MakeInt(i)
	})))
	// a host object that reaches itself through a container it holds, followed by shared values
	for _, after := range []int{1, 2, 3} {
		l := starlark.NewList(nil)
		h := &hObj{mod: "m", name: "cyc", args: starlark.Tuple{l}}
		l.Append(h)
		shared := starlark.NewList([]starlark.Value{starlark.String("shared")})
		d := starlark.NewDict(1)
		d.SetKey(starlark.String("k"), shared)
		top := starlark.NewList([]starlark.Value{h})
		for i := 0; i < after; i++ {
			top.Append(shared)
			top.Append(d)
		}
		vs = append(vs, top, starlark.Tuple{h, shared, shared})
	}
	// self-referential big list
	self := starlark.NewList(nil)
	for i := 0; i < 1200; i++ {
		self.Append(starlark.MakeInt(i))
	}
	self.Append(self)
	vs = append(vs, self, wrap("list1", self))
	// random nested values
	var gen func(d int) starlark.Value
	pool := []starlark.Value{}
	gen = func(d int) starlark.Value {
		if len(pool) > 0 && rnd.Intn(5) == 0 {
			return pool[rnd.Intn(len(pool))]
		}
		if d == 0 || rnd.Intn(3) == 0 {
			switch rnd.Intn(6) {
			case 0:
				return starlark.None
			case 1:
				return starlark.Bool(rnd.Intn(2) == 0)
			case 2:
				return starlark.MakeInt64(rnd.Int63n(1<<uint(rnd.Intn(40)+1)) - 1<<uint(rnd.Intn(20)))
			case 3:
				return starlark.String(strings.Repeat("ab", rnd.Intn(200)))
			case 4:
				return starlark.Float(rnd.NormFloat64())
			default:
				return starlark.Bytes(strings.Repeat("\xf0", rnd.Intn(300)))
			}
		}
		n := rnd.Intn(5)
		switch rnd.Intn(5) {
		case 0:
			l := starlark.NewList(nil)
			pool = append(pool, l)
			for i := 0; i < n; i++ {
				l.Append(gen(d - 1))
			}
			return l
		case 1:
			t := make(starlark.Tuple, n)
			for i := range t {
				t[i] = gen(d - 1)
			}
			return t
		case 2:
			dd := starlark.NewDict(n)
			pool = append(pool, dd)
			for i := 0; i < n; i++ {
				dd.SetKey(starlark.MakeInt(rnd.Intn(100000)), gen(d-1))
			}
			return dd
		case 3:
			s := starlark.NewSet(n)
			for i := 0; i < n; i++ {
				s.Insert(starlark.MakeInt(rnd.Intn(1 << 20)))
			}
			return s
		default:
			a := make(starlark.Tuple, n)
			for i := range a {
				a[i] = gen(d - 1)
			}
			return &hObj{mod: "mod", name: "cls", args: a}
		}
	}
	nr := 300
	if tier == "thorough" {
		nr = 5000
	}
	for i := 0; i < nr; i++ {
		pool = pool[:0]
		vs = append(vs, gen(4))
	}
	return vs
}

func mutate(rnd *rand.Rand, b []byte) []byte {
	c := append([]byte(nil), b...)
	if len(c) == 0 {
		return []byte{byte(rnd.Intn(256))}
	}
	switch rnd.Intn(6) {
	case 0: // bit flip
		c[rnd.Intn(len(c))] ^= 1 << uint(rnd.Intn(8))
	case 1: // byte replace
		c[rnd.Intn(len(c))] = byte(rnd.Intn(256))
	case 2: // truncate
		c = c[:rnd.Intn(len(c))]
	case 3: // delete a run
		i := rnd.Intn(len(c))
		j := i + rnd.Intn(len(c)-i+1)
		c = append(c[:i], c[j:]...)
	case 4: // splice from elsewhere
		i, j := rnd.Intn(len(c)), rnd.Intn(len(c))
		n := rnd.Intn(8) + 1
		for k := 0; k < n && i+k < len(c) && j+k < len(c); k++ {
			c[i+k] = c[j+k]
		}
	default: // insert an opcode
		opsb := []byte{opMARK, opSTOP, opMEMOIZE, opBINGET, opAPPEND, opAPPENDS, opTUPLE, opTUPLE1, opTUPLE2, opTUPLE3, opSETITEMS, opADDITEMS, opSTACK_GLOBAL, opNEWOBJ, opEMPTY_LIST, opEMPTY_DICT, opEMPTY_SET, opINT, opBININT2}
		i := rnd.Intn(len(c) + 1)
		c = append(c[:i], append([]byte{opsb[rnd.Intn(len(opsb))]}, c[i:]...)...)
	}
	return c
}

// ---- driver ------------------------------------------------------------------------------------------

type pCase struct {
	Mode string          `json:"mode"`
	X    json.RawMessage `json:"x"`
}

func TestVerifPickle(t *testing.T) {
	in, out := os.Getenv("VERIF_CASES"), os.Getenv("VERIF_OUT")
	if in == "" || out == "" {
		t.Skip("VERIF_CASES / VERIF_OUT not set")
	}
	tier := os.Getenv("VERIF_TIER")
	seed, _ := strconv.ParseInt(os.Getenv("VERIF_SEED"), 10, 64)
	rnd := rand.New(rand.NewSource(seed*977 + 5))
	of, err := os.OpenFile(out, os.O_APPEND|os.O_CREATE|os.O_WRONLY, 0644)
	if err != nil {
		t.Fatal(err)
	}
	defer of.Close()
	var batch []map[string]any
	nline := 0
	flush := func(prefix string, force bool, size int) {
		if len(batch) > 0 && (len(batch) >= size || force) {
			b, _ := json.Marshal(map[string]any{"id": fmt.Sprintf("%s-%d", prefix, nline), "events": batch})
			of.Write(append(b, '\n'))
			nline++
			batch = nil
		}
	}
	// (1) cases from the model
	if f, err := os.Open(in); err == nil {
		sc := bufio.NewScanner(f)
		sc.Buffer(make([]byte, 1<<20), 1<<26)
		var encs [][]byte
		for sc.Scan() && !hung {
			var c pCase
			if json.Unmarshal(sc.Bytes(), &c) != nil {
				continue
			}
			if c.Mode == "heaps" {
				var h rHeap
				if json.Unmarshal(c.X, &h) != nil {
					continue
				}
				v, err := h.build()
				if err != nil {
					batch = append(batch, map[string]any{"ev": "Unbuildable", "msg": err.Error()})
					continue
				}
				batch = append(batch, roundTrip(v))
				flush("heap", false, 200)
				if rnd.Intn(50) == 0 {
					var buf bytes.Buffer
					if NewEncoder(&buf, PicklerFunc(vPickler)).Encode(v) == nil {
						encs = append(encs, buf.Bytes())
					}
				}
			} else {
				var ops []op
				if json.Unmarshal(c.X, &ops) != nil {
					continue
				}
				b := serialise(ops)
				for _, u := range []string{"generic", "nil"} {
					if ev := decodeBytes(b, u); ev != nil {
						batch = append(batch, ev)
					}
				}
				flush("ops", false, 400)
			}
		}
		f.Close()
		flush("model", true, 0)
		// (3) corruption of real encodings
		nm := 3000
		if tier == "thorough" {
			nm = 60000
		}
		for i := 0; i < nm && len(encs) > 0 && !hung; i++ {
			b := encs[rnd.Intn(len(encs))]
			for k := rnd.Intn(3) + 1; k > 0; k-- {
				b = mutate(rnd, b)
			}
			if ev := decodeBytes(b, []string{"generic", "nil"}[i%2]); ev != nil {
				batch = append(batch, ev)
			}
			flush("mut", false, 300)
		}
		flush("mut", true, 0)
	}
	// (2) the harness's own boundary and scaled values
	for _, v := range ownValues(tier, rnd) {
		if hung {
			break
		}
		batch = append(batch, roundTrip(v))
		flush("own", false, 8)
		if rnd.Intn(4) == 0 {
			var buf bytes.Buffer
			if NewEncoder(&buf, PicklerFunc(vPickler)).Encode(v) == nil && buf.Len() < 4000 {
				for k := 0; k < 20 && !hung; k++ {
					if ev := decodeBytes(mutate(rnd, buf.Bytes()), "generic"); ev != nil {
						batch = append(batch, ev)
					}
				}
			}
		}
	}
	flush("own", true, 0)
	// random byte strings
	nb := 2000
	if tier == "thorough" {
		nb = 40000
	}
	alphabet := []byte{opMARK, opSTOP, opMEMOIZE, opBINGET, opNONE, opNEWTRUE, opBININT1, opBININT2, opINT, opSHORT_BINUNICODE, opEMPTY_LIST, opAPPEND,
		opAPPENDS, opEMPTY_TUPLE, opTUPLE1, opTUPLE2, opTUPLE3, opTUPLE, opEMPTY_DICT, opSETITEMS, opEMPTY_SET, opADDITEMS, opSTACK_GLOBAL, opNEWOBJ, 0, 1, '\n', 'a'}
	for i := 0; i < nb && !hung; i++ {
		b := make([]byte, rnd.Intn(24))
		for j := range b {
			if rnd.Intn(4) == 0 {
				b[j] = byte(rnd.Intn(256))
			} else {
				b[j] = alphabet[rnd.Intn(len(alphabet))]
			}
		}
		if ev := decodeBytes(b, []string{"generic", "nil"}[i%2]); ev != nil {
			batch = append(batch, ev)
		}
		flush("rand", false, 400)
	}
	flush("rand", true, 0)
	// (5) the whole opcode table: every pair of instructions (thorough: also the triples over the
	// stack and memo instructions) after a prefix that leaves something on the stack and in the memo
	ins := instrs()
	prefixes := [][]byte{{opNONE}, {opEMPTY_LIST, opMEMOIZE}}
	if tier == "thorough" {
		prefixes = append(prefixes, nil, []byte{opMARK, opNONE}, []byte{opNONE, opMEMOIZE})
	}
	emit := func(b []byte) {
		if hung {
			return
		}
		if ev := decodeBytes(b, "generic"); ev != nil {
			batch = append(batch, ev)
		}
		flush("table", false, 400)
	}
	for _, p := range prefixes {
		for _, a := range ins {
			for _, b2 := range ins {
				emit(append(append(append(append([]byte{}, p...), a...), b2...), opSTOP))
			}
		}
	}
	if tier == "thorough" {
		var small [][]byte
		for _, a := range ins {
			if strings.ContainsRune("(012Nhjqrgp]a)t}s", rune(a[0])) || a[0] == opMEMOIZE || a[0] == 0x85 {
				small = append(small, a)
			}
		}
		for _, a := range small {
			for _, b2 := range small {
				for _, c := range small {
					emit(append(append(append(append([]byte{opNONE, opMEMOIZE}, a...), b2...), c...), opSTOP))
				}
			}
		}
	}
	flush("table", true, 0)
	// (6) last, because a call that does not return cannot be stopped: a chain of tuples, each
	// holding the previous one twice through the memo, used as a set element or a dict key. The
	// input grows by four bytes per level.
	bomb := func(levels int, asKey bool) []byte {
		var b []byte
		if asKey {
			b = []byte{opEMPTY_DICT, opMARK}
		} else {
			b = []byte{opEMPTY_SET, opMARK}
		}
		b = append(b, opNONE, 0x85, opMEMOIZE) // (None,) is memo entry 0
		for k := 0; k < levels; k++ {
			b = append(b, opBINGET, byte(k), 0x86, opMEMOIZE) // (previous, previous)
		}
		if asKey {
			return append(b, opNONE, opSETITEMS, opSTOP)
		}
		return append(b, opADDITEMS, opSTOP)
	}
	for _, c := range []struct {
		levels int
		key    bool
	}{{8, false}, {8, true}, {14, false}, {48, false}, {48, true}} {
		if hung {
			break
		}
		if ev := decodeBytes(bomb(c.levels, c.key), "none"); ev != nil {
			ev["shape"] = fmt.Sprintf("nested shared tuples, %d levels, hashed as a %s", c.levels, map[bool]string{false: "set element", true: "dict key"}[c.key])
			batch = append(batch, ev)
		}
	}
	flush("bomb", true, 0)
}
