//go:build verif

package runner

// Verification harness for the target runner (properties C04, C05, C09). This file is not
// part of the repository: it is added to package runner at build time with `go test
// -overlay`. It drives the real runner.Run with harness-owned Targets/Target
// implementations under a controlled scheduler (testing/synctest + the verif yield
// hooks), under seeded random/PCT schedules, TLC-generated schedules, and free-running
// stress, and logs the observable events of every execution as one JSON line.

import (
	"bufio"
	"encoding/json"
	"errors"
	"fmt"
	"math/rand"
	"os"
	"reflect"
	"runtime"
	"sort"
	"strings"
	"sync"
	"sync/atomic"
	"testing"
	"testing/synctest"
	"time"
	"unsafe"

	"github.com/pgavlin/dawn/internal/zzverif/sched"
)

type vCfg struct {
	Deps    map[string][]string `json:"deps"`
	Unknown []string            `json:"unknown"`
	Failing []string            `json:"failing"`
	Root    string              `json:"root"`
	Limit   int                 `json:"limit"`
}

type vCase struct {
	ID       string   `json:"id"`
	Cfg      vCfg     `json:"cfg"`
	Mode     string   `json:"mode"` // script | random | pct | stress
	Seed     int64    `json:"seed"`
	Schedule []string `json:"schedule,omitempty"`
	Noise    int      `json:"noise,omitempty"`
	Reps     int      `json:"reps,omitempty"`
	Barrier  int      `json:"barrier,omitempty"`
	Procs    int      `json:"procs,omitempty"`
	Spin     int      `json:"spin,omitempty"` // stress: gate round trips made by every leaf
}

type vTrace struct {
	ID       string        `json:"id"`
	Cfg      vCfg          `json:"cfg"`
	Mode     string        `json:"mode"`
	Seed     int64         `json:"seed"`
	Schedule []string      `json:"schedule"`
	Diverged int           `json:"diverged"`
	Bounded  bool          `json:"bounded,omitempty"`
	Steps    []sched.Event `json:"steps"`
	Events   []sched.Event `json:"events"`
}

type hErr string

func (e hErr) Error() string { return string(e) }

func errTag(err error) string {
	if err == nil {
		return ""
	}
	var c CyclicDependencyError
	if errors.As(err, &c) {
		return "cyclic:" + string(c)
	}
	var h hErr
	if errors.As(err, &h) {
		return string(h)
	}
	return "other:" + err.Error()
}

type hWorld struct {
	c    *vCase
	rec  *sched.Recorder
	s    *sched.Sched
	mu   sync.Mutex
	rptr unsafe.Pointer // *runner, captured through the engine (white-box, optional)
	rtyp reflect.Type
	open atomic.Int64 // started-but-not-ended targets (LoadBegin .. end)
	arrived atomic.Int64
	work    atomic.Int64
	exec    atomic.Int64 // targets executing: loading or in their body, not inside EvaluateTargets
}

// rendezvous makes up to k free-running goroutines leave together (bounded spin), so that
// sibling targets reach the runner at the same moment.
func (w *hWorld) rendezvous(k int) {
	if k <= 1 {
		return
	}
	n := w.arrived.Add(1)
	target := (n + int64(k) - 1) / int64(k) * int64(k)
	deadline := time.Now().Add(150 * time.Microsecond)
	for w.arrived.Load() < target && time.Now().Before(deadline) {
		runtime.Gosched()
	}
}

type hTarget struct {
	w     *hWorld
	label string
}

func contains(xs []string, x string) bool {
	for _, y := range xs {
		if x == y {
			return true
		}
	}
	return false
}

func (w *hWorld) LoadTarget(label string) (Target, error) {
	w.open.Add(1)
	w.exec.Add(1)
	w.rec.Log("LoadBegin", "l", label)
	w.s.Yield("h.load", label)
	if _, ok := w.c.Cfg.Deps[label]; !ok || contains(w.c.Cfg.Unknown, label) {
		e := hErr("unknown:" + label)
		w.rec.Log("LoadEnd", "l", label, "err", string(e))
		w.exec.Add(-1)
		w.open.Add(-1)
		return nil, e
	}
	w.rec.Log("LoadEnd", "l", label, "err", "")
	return &hTarget{w: w, label: label}, nil
}

func (t *hTarget) Evaluate(e Engine) error {
	w := t.w
	w.captureRunner(e)
	w.rec.Log("EvalBegin", "l", t.label)
	w.s.Yield("h.eval", t.label)
	if w.c.Mode == "stress" && w.c.Barrier > 0 {
		w.rendezvous(w.c.Barrier)
	}
	deps := w.c.Cfg.Deps[t.label]
	if w.c.Mode == "stress" && w.c.Spin > 0 && len(deps) == 0 {
		// gate round trips: EvaluateTargets without labels gives the slot up and takes
		// one again. The counter is lowered before the slot is released and raised after
		// one is held, so it never exceeds the number of slots in use.
		peak := int64(0)
		w.rec.Log("SpinBegin", "l", t.label)
		for i := 0; i < w.c.Spin; i++ {
			for j := 0; j < 10; j++ {
				w.work.Add(1) // a little contended work between round trips
			}
			w.exec.Add(-1)
			e.EvaluateTargets()
			if n := w.exec.Add(1); n > peak {
				peak = n
			}
		}
		w.rec.Log("Spin", "l", t.label, "n", w.c.Spin, "peak", peak)
	}
	w.exec.Add(-1)
	w.rec.Log("ETCall", "l", t.label, "deps", append([]string{}, deps...))
	rs := e.EvaluateTargets(deps...)
	results := make([]map[string]string, len(rs))
	failed := false
	for i, r := range rs {
		tgt := ""
		if r.Target != nil {
			if ht, ok := r.Target.(*hTarget); ok {
				tgt = ht.label
			} else {
				tgt = "?"
			}
		}
		results[i] = map[string]string{"err": errTag(r.Error), "tgt": tgt}
		if r.Error != nil {
			failed = true
		}
	}
	w.exec.Add(1)
	w.rec.Log("ETReturn", "l", t.label, "results", results)
	w.s.Yield("h.eval2", t.label)
	var err error
	switch {
	case failed:
		err = hErr("dep:" + t.label)
	case contains(w.c.Cfg.Failing, t.label):
		err = hErr("body:" + t.label)
	}
	w.rec.Log("EvalEnd", "l", t.label, "err", errTag(err))
	w.exec.Add(-1)
	w.open.Add(-1)
	return err
}

// captureRunner remembers the runner behind an engine, by reflection, so that the
// projection of the real state can be logged. Everything white-box is optional: if the
// implementation is refactored the projection is simply omitted.
func (w *hWorld) captureRunner(e Engine) {
	defer func() { recover() }()
	w.mu.Lock()
	defer w.mu.Unlock()
	if w.rptr != nil {
		return
	}
	v := reflect.ValueOf(e)
	if v.Kind() != reflect.Ptr {
		return
	}
	f := v.Elem().FieldByName("runner")
	if !f.IsValid() || f.Kind() != reflect.Ptr || f.IsNil() {
		return
	}
	w.rptr = unsafe.Pointer(f.Pointer())
	w.rtyp = f.Type().Elem()
}

// capacity reads runner.gate.capacity; ok=false if it cannot be found.
func (w *hWorld) capacity() (c int, ok bool) {
	defer func() {
		if recover() != nil {
			ok = false
		}
	}()
	w.mu.Lock()
	p, typ := w.rptr, w.rtyp
	w.mu.Unlock()
	if p == nil {
		return 0, false
	}
	rv := reflect.NewAt(typ, p).Elem()
	g := rv.FieldByName("gate")
	if !g.IsValid() || g.Kind() != reflect.Ptr || g.IsNil() {
		return 0, false
	}
	cf := g.Elem().FieldByName("capacity")
	if !cf.IsValid() || !cf.CanInt() {
		return 0, false
	}
	// take the gate's lock if there is one, so free-running reads are not racy
	if mf := g.Elem().FieldByName("m"); mf.IsValid() && mf.CanAddr() && mf.Type() == reflect.TypeOf(sync.Mutex{}) {
		m := (*sync.Mutex)(unsafe.Pointer(mf.UnsafeAddr()))
		m.Lock()
		defer m.Unlock()
	}
	return int(cf.Int()), true
}

// projection reads status/err/waiting of every target and the gate capacity. Only valid
// at quiescent points of the controlled scheduler.
func (w *hWorld) projection() (proj map[string]any) {
	defer func() {
		if recover() != nil {
			proj = nil
		}
	}()
	w.mu.Lock()
	p, typ := w.rptr, w.rtyp
	w.mu.Unlock()
	if p == nil {
		return nil
	}
	rv := reflect.NewAt(typ, p).Elem()
	g := rv.FieldByName("gate")
	cf := g.Elem().FieldByName("capacity")
	proj = map[string]any{"cap": int(cf.Int())}
	tm := rv.FieldByName("targetMap")
	if !tm.IsValid() || tm.Type() != reflect.TypeOf(sync.Map{}) {
		return proj
	}
	m := (*sync.Map)(unsafe.Pointer(tm.UnsafeAddr()))
	byPtr := map[uintptr]string{}
	status := map[string]int{}
	var tvals []reflect.Value
	m.Range(func(k, v any) bool {
		tv := reflect.ValueOf(v)
		byPtr[tv.Pointer()] = k.(string)
		tvals = append(tvals, tv)
		return true
	})
	waiting := map[string]any{}
	for _, tv := range tvals {
		l := byPtr[tv.Pointer()]
		status[l] = int(tv.Elem().FieldByName("status").Int())
		wf := tv.Elem().FieldByName("waiting")
		if wf.IsValid() && wf.NumField() > 0 {
			// atomic.Pointer[T]: the last field is the unsafe.Pointer
			var up unsafe.Pointer
			for i := 0; i < wf.NumField(); i++ {
				if wf.Field(i).Kind() == reflect.UnsafePointer {
					up = unsafe.Pointer(wf.Field(i).Pointer())
				}
			}
			if up == nil {
				waiting[l] = nil
			} else {
				ptrs := *(*[]unsafe.Pointer)(up)
				names := make([]string, len(ptrs))
				for i, q := range ptrs {
					names[i] = byPtr[uintptr(q)]
				}
				waiting[l] = names
			}
		}
	}
	proj["status"] = status
	proj["waiting"] = waiting
	return proj
}

var (
	vProgress atomic.Int64
	vArmed    atomic.Bool
	vCurrent  atomic.Value // string: id of the case in flight
)

func runControlled(t *testing.T, c *vCase) (tr *vTrace) {
	tr = &vTrace{ID: c.ID, Cfg: c.Cfg, Mode: c.Mode, Seed: c.Seed, Diverged: -1}
	rec := &sched.Recorder{}
	s := sched.New()
	s.Progress = &vProgress
	s.Name = func(point, label string) string {
		if point == "run.enter" {
			return label
		}
		return ""
	}
	w := &hWorld{c: c, rec: rec, s: s}
	VerifYield = s.Yield
	defer func() { VerifYield = nil }()

	r := rand.New(rand.NewSource(c.Seed))
	var pick sched.Picker
	var script *sched.ScriptPicker
	switch c.Mode {
	case "pct":
		pick = sched.NewPCT(r, 3, 60)
	case "script":
		script = &sched.ScriptPicker{Script: c.Schedule, Fallback: &sched.RandomPicker{R: r}, Diverged: -1}
		pick = script
	default:
		pick = &sched.RandomPicker{R: r}
	}

	var mainDone atomic.Bool
	deadlock := false
	func() {
		defer func() {
			// a bubble that ends with blocked goroutines panics; that is the deadlock case
			if p := recover(); p != nil {
				if !deadlock {
					rec.Log("HarnessPanic", "msg", fmt.Sprint(p))
				}
			}
		}()
		synctest.Test(t, func(t *testing.T) {
			go func() {
				s.Bind("main")
				err := Run(w, c.Cfg.Root)
				rec.Log("RunReturn", "err", errTag(err))
				mainDone.Store(true)
			}()
			_, exhausted, livelock := s.Loop(pick, 3000, 20000,
				func(step int) {
					if pr := w.projection(); pr != nil {
						tr.Steps = append(tr.Steps, sched.Event{"ev": "Proj", "proj": pr, "n": rec.Len()})
						rec.Log("Gate", "cap", pr["cap"])
					}
				},
				func(step int, p *sched.Parked) {
					tr.Schedule = append(tr.Schedule, p.Thread)
					tr.Steps = append(tr.Steps, sched.Event{"ev": "Step", "th": p.Thread, "point": p.Point, "obj": p.Label})
				})
			if exhausted {
				rec.Log("StepBound")
				tr.Bounded = true
			}
			if livelock {
				deadlock = true
				rec.Log("Hang", "kind", "livelock: not finished after 23000 fair scheduler steps")
			} else if !mainDone.Load() || w.open.Load() != 0 {
				deadlock = true
				// threads whose last scheduling point is the entry of the gate are parked in it
				last := map[string]string{}
				for _, st := range tr.Steps {
					if st["ev"] == "Step" {
						last[st["th"].(string)] = st["point"].(string)
					}
				}
				atgate := 0
				for _, pt := range last {
					if pt == "gate.enter" {
						atgate++
					}
				}
				rec.Log("Deadlock", "main", mainDone.Load(), "open", w.open.Load(), "atgate", atgate)
			}
		})
	}()
	if script != nil {
		tr.Diverged = script.Diverged
	}
	capv := -1
	if cv, ok := w.capacity(); ok && !deadlock {
		capv = cv
	}
	rec.Log("Final", "cap", capv)
	tr.Events = rec.Events()
	return tr
}

func runFree(t *testing.T, c *vCase) (tr *vTrace) {
	tr = &vTrace{ID: c.ID, Cfg: c.Cfg, Mode: c.Mode, Seed: c.Seed, Diverged: -1}
	rec := &sched.Recorder{}
	s := sched.New()
	s.Free = true
	s.FreeSeed = uint64(c.Seed)
	s.FreeNoise = c.Noise
	w := &hWorld{c: c, rec: rec, s: s}
	VerifYield = s.Yield
	defer func() { VerifYield = nil }()
	if c.Procs > 0 {
		defer runtime.GOMAXPROCS(runtime.GOMAXPROCS(c.Procs))
	}
	baseGoroutines := runtime.NumGoroutine()
	done := make(chan struct{})
	go func() {
		err := Run(w, c.Cfg.Root)
		rec.Log("RunReturn", "err", errTag(err))
		close(done)
	}()
	hang := false
	select {
	case <-done:
	case <-time.After(20 * time.Second):
		hang = true
	}
	if !hang {
		// Run may return while other targets are still running (after a cycle is
		// reported); wait until everything that started has ended.
		// (a target that was started but whose goroutine has not run yet is not "open": the
		// number of goroutines must be back to what it was before the build as well)
		deadline := time.Now().Add(20 * time.Second)
		settled := func() bool { return w.open.Load() == 0 && runtime.NumGoroutine() <= baseGoroutines }
		for !settled() && time.Now().Before(deadline) {
			time.Sleep(200 * time.Microsecond)
		}
		if w.open.Load() != 0 {
			hang = true
		}
	}
	if hang {
		dump := sched.AllStacks()
		capv := -1
		if cv, ok := w.capacity(); ok {
			capv = cv
		}
		rec.Log("Hang", "dump", dump, "atgate", strings.Count(dump, "runner.(*gate).enter("), "cap", capv)
		tr.Events = rec.Events()
		return tr
	}
	// let the goroutines release their slots
	capv, same := -1, 0
	for i := 0; i < 2000; i++ {
		cv, ok := w.capacity()
		if !ok {
			break
		}
		if cv == capv {
			same++
		} else {
			same = 0
		}
		capv = cv
		// all slots are back, or the count has stopped moving (every goroutine has ended)
		if cv == c.Cfg.Limit || same >= 40 {
			break
		}
		time.Sleep(100 * time.Microsecond)
	}
	rec.Log("Final", "cap", capv)
	tr.Events = rec.Events()
	return tr
}

// TestVerifRunner executes the cases of $VERIF_CASES (JSON lines) and appends one trace
// line per case to $VERIF_OUT. Cases whose limit differs from runtime.NumCPU() are
// skipped (the driver runs this binary under taskset once per limit).
func TestVerifRunner(t *testing.T) {
	in, out := os.Getenv("VERIF_CASES"), os.Getenv("VERIF_OUT")
	if in == "" || out == "" {
		t.Skip("VERIF_CASES / VERIF_OUT not set")
	}
	f, err := os.Open(in)
	if err != nil {
		t.Fatal(err)
	}
	defer f.Close()
	of, err := os.OpenFile(out, os.O_APPEND|os.O_CREATE|os.O_WRONLY, 0644)
	if err != nil {
		t.Fatal(err)
	}
	defer of.Close()
	skipUntil := os.Getenv("VERIF_RESUME_AFTER")

	sched.Watchdog(&vProgress, &vArmed, 10*time.Second, func() {
		id, _ := vCurrent.Load().(string)
		sched.WriteLine(of, map[string]any{"id": id, "stall": true, "dump": sched.AllStacks()})
	})

	sc := bufio.NewScanner(f)
	sc.Buffer(make([]byte, 1<<20), 1<<26)
	n := 0
	for sc.Scan() {
		var c vCase
		if err := json.Unmarshal(sc.Bytes(), &c); err != nil {
			t.Fatalf("bad case: %v", err)
		}
		if skipUntil != "" {
			if c.ID == skipUntil {
				skipUntil = ""
			}
			continue
		}
		if c.Cfg.Limit != runtime.NumCPU() {
			continue
		}
		if os.Getenv("VERIF_SKIP_CONTROLLED") != "" && c.Mode != "stress" {
			continue
		}
		for l := range c.Cfg.Deps {
			sort.Strings(c.Cfg.Unknown)
			_ = l
		}
		vCurrent.Store(c.ID)
		// the case in flight, for the driver: a fatal error in the runner kills this process
		os.WriteFile(out+".cur", []byte(c.ID), 0644)
		var tr *vTrace
		if c.Mode == "stress" {
			for rep := 1; rep < c.Reps; rep++ {
				cc := c
				cc.ID = fmt.Sprintf("%s.%d", c.ID, rep)
				cc.Seed = c.Seed + int64(rep)
				tr = runFree(t, &cc)
				if err := sched.WriteLine(of, tr); err != nil {
					t.Fatal(err)
				}
				if tr.Events[len(tr.Events)-1]["ev"] == "Hang" {
					of.Close()
					os.Exit(5)
				}
			}
			tr = runFree(t, &c)
		} else {
			vArmed.Store(true)
			tr = runControlled(t, &c)
			vArmed.Store(false)
		}
		if err := sched.WriteLine(of, tr); err != nil {
			t.Fatal(err)
		}
		n++
		if len(tr.Events) > 0 && tr.Events[len(tr.Events)-1]["ev"] == "Hang" {
			// goroutines of the hung build cannot be cleaned up: stop this process, the
			// driver resumes after this case
			of.Close()
			os.Exit(5)
		}
	}
	t.Logf("ran %d cases", n)
}
