//go:build verif

package util

// Verification harness for glob sets (property C17). Added to package util at build time
// with `go test -overlay`. Enumerates pattern lists and paths over the glob alphabet and
// logs the real CompileGlobs / MatchString results for the TLA+ monitor GlobMon.

import (
	"encoding/json"
	"fmt"
	"math/rand"
	"os"
	"strconv"
	"testing"
)

func strs(alpha []string, n int) []string {
	res := []string{""}
	prev := []string{""}
	for l := 1; l <= n; l++ {
		var cur []string
		for _, s := range prev {
			for _, c := range alpha {
				cur = append(cur, s+c)
			}
		}
		res = append(res, cur...)
		prev = cur
	}
	return res
}

func TestVerifGlob(t *testing.T) {
	out := os.Getenv("VERIF_OUT")
	if out == "" {
		t.Skip("VERIF_OUT not set")
	}
	atoi := func(k string, d int) int {
		if v, err := strconv.Atoi(os.Getenv(k)); err == nil {
			return v
		}
		return d
	}
	plen1, plen2, plen3, slen := atoi("VERIF_GLOB_P1", 3), atoi("VERIF_GLOB_P2", 2), atoi("VERIF_GLOB_P3", 1), atoi("VERIF_GLOB_S", 4)
	nrand := atoi("VERIF_GLOB_RANDOM", 2000)
	seed, _ := strconv.ParseInt(os.Getenv("VERIF_SEED"), 10, 64)
	rnd := rand.New(rand.NewSource(seed*31 + 7))
	of, err := os.OpenFile(out, os.O_APPEND|os.O_CREATE|os.O_WRONLY, 0644)
	if err != nil {
		t.Fatal(err)
	}
	defer of.Close()
	palpha := []string{"a", "b", "/", ".", "*", "?", "\\", "+"}
	// escaped brackets are metacharacters too; they enter through whole tokens
	extra := []string{"\\[", "\\]", "a\\[b\\]", "\\[\\]", "x\\\\y", "\\\\", "a\\\\", "\\*a", "\\?"}
	salpha := []string{"a", "b", ".", "/", "\\"}
	paths := strs(salpha, slen)[1:]
	var batch []map[string]any
	nline := 0
	flush := func(force bool) {
		if len(batch) > 0 && (len(batch) >= 40 || force) {
			b, _ := json.Marshal(map[string]any{"id": fmt.Sprintf("glob-%d", nline), "events": batch})
			of.Write(append(b, '\n'))
			nline++
			batch = nil
		}
	}
	try := func(pats []string, ps []string) {
		ev := map[string]any{"ev": "Match", "pats": pats, "compiled": false, "results": [][]any{}}
		func() {
			defer func() {
				if p := recover(); p != nil {
					ev["panic"] = fmt.Sprint(p)
				}
			}()
			re, err := CompileGlobs(pats)
			if err != nil {
				return
			}
			ev["compiled"] = true
			res := make([][]any, 0, len(ps))
			for _, p := range ps {
				res = append(res, []any{p, re.MatchString(p)})
			}
			ev["results"] = res
		}()
		batch = append(batch, ev)
		flush(false)
	}
	for _, p := range strs(palpha, plen1)[1:] {
		try([]string{p}, paths)
	}
	for _, p := range extra {
		try([]string{p}, append([]string{"[", "]", "a[b]", "[]", "x\\y", "x\\\\y", "\\", "\\\\", "a\\", "*a", "?", "a"}, paths[:40]...))
		try([]string{p, "a"}, []string{"[", "]", "a[b]", "[]", "x\\y", "\\", "a\\", "*a", "?", "a", "aa"})
	}
	// escaped metacharacters next to runs of stars and question marks, against paths that hold
	// the metacharacters themselves
	metaPaths := []string{"*", "**", "*a", "*a/b", "*/a", "*gen/out", "a*", "a*b/c", "?", "?a/b", "a?/b", "\\a/b", "a", "a/b", "ab/c", "*?", "?*/x"}
	for _, p := range []string{"\\*", "\\**", "\\***", "\\****", "a\\***", "\\***/b", "\\*\\**", "\\?**", "\\?*", "\\??", "**\\*", "***", "****", "a***b", "\\\\***", "*\\**", "\\***out"} {
		try([]string{p}, metaPaths)
		try([]string{"zz", p}, metaPaths)
	}
	// no pattern at all matches nothing; a line break is a character like any other
	try([]string{}, []string{"", "a", "/", "a/b"})
	for _, p := range []string{"?", "a?b", "**", "a**b", "*", "a*b", "?*", "a?"} {
		try([]string{p}, []string{"\n", "a\nb", "a\n", "\nb", "a\n/b", "a/\nb", "ab", "a"})
		try([]string{"x", p}, []string{"\n", "a\nb", "x"})
	}
	// histories: what a list matches does not depend on the lists compiled before it in the same
	// process. Lists whose spellings coincide when joined with a separator, in both orders.
	for i, sep := range []string{"|", ",", " ", ":", ";", "\x00", "\n", ")|(", "|^", "$|"} {
		a, b := "s"+strconv.Itoa(i), "g*"
		joined := a + sep + b
		ps := []string{joined, a, b, "g" + strconv.Itoa(i), a + sep + "gx", "x"}
		if i%2 == 0 {
			try([]string{joined}, ps)
			try([]string{a, b}, ps)
		} else {
			try([]string{a, b}, ps)
			try([]string{joined}, ps)
		}
		try([]string{joined, a}, ps)
		try([]string{a, b, joined}, ps)
		try([]string{joined}, ps)
	}
	shortPaths := strs(salpha, min(slen, 3))[1:]
	p2 := strs(palpha, plen2)[1:]
	for _, a := range p2 {
		for _, b := range p2 {
			try([]string{a, b}, shortPaths)
		}
	}
	p3 := strs(palpha, plen3)[1:]
	for _, a := range p3 {
		for _, b := range p3 {
			for _, c := range p3 {
				try([]string{a, b, c}, shortPaths)
			}
		}
	}
	// seeded random longer patterns and lists
	for i := 0; i < nrand; i++ {
		n := 1 + rnd.Intn(4)
		pats := make([]string, n)
		for j := range pats {
			l := 1 + rnd.Intn(7)
			for k := 0; k < l; k++ {
				pats[j] += palpha[rnd.Intn(len(palpha))]
			}
		}
		ps := make([]string, 12)
		for j := range ps {
			l := 1 + rnd.Intn(8)
			for k := 0; k < l; k++ {
				ps[j] += salpha[rnd.Intn(len(salpha))]
			}
		}
		try(pats, ps)
	}
	flush(true)
}
