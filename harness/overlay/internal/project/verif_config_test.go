//go:build verif

package project

// Verification harness for the project configuration file (property C19). Added to package
// internal/project at build time with `go test -overlay`. Each case (from the TLA+ case
// enumeration) names the character class of every string position; the harness
// instantiates it with concrete strings and performs Write / Load / Write.

import (
	"strings"
	"bufio"
	"encoding/json"
	"fmt"
	"math/rand"
	"os"
	"path/filepath"
	"sort"
	"strconv"
	"testing"
)

type cfCase struct {
	Name   string   `json:"name"`
	Ignore []string `json:"ignore"`
	NReq   int      `json:"nreq"`
	Key    string   `json:"key"`
	Key2   string   `json:"key2"`
	Path   string   `json:"path"`
}

var cfStrings = map[string][]string{
	"plain":     {"proj", "my-lib_2", "A0"},
	"space":     {"my proj", " lead", "trail "},
	"dot":       {"a.b", "example.com", "."},
	"squote":    {"it's", "'", "''quoted''"},
	"dquote":    {`say "hi"`, `"`, `a""b`},
	"backslash": {`a\b`, `\`, `c:\dir\`, `\n`},
	"control":   {"a\x01b", "\x7f", "bell\x07"},
	"newline":   {"a\nb", "tab\there", "cr\rlf\n"},
	"unicode":   {"café", "библиотека", "名前"},
	"nonbmp":    {"a😀b", "𝔘𝔫𝔦", "🧪"},
	"hash":      {"a#b", "#", "x # y"},
	"equals":    {"a=b", "=", "k = v"},
	"bracket":   {"a[b]", "[x]", "{y}"},
	"empty":     {""},
	"percent":   {"100%", "a%sb", "%v", "50%% off", "%!(EXTRA"},
	// ignore patterns that a path cleaner would rewrite
	"pathlike": {"out/", "./build/**", "a/../b/*.tmp", "x//y", "./", "..", "a/./b"},
}

var cfPaths = map[string][]string{
	"plain":  {"example.com/lib", "lib"},
	"nested": {"example.com/a/b/c", "github.com/org/repo/sub"},
	"v2":     {"example.com/lib@v2", "github.com/org/repo@v3"},
	"v10":    {"example.com/lib@v10", "example.com/a/b@v11"},
	"host":   {"git.example.com:8080/x", "example.com/~user/lib"},
	// an @ suffix that is not a major version of 2 or more is part of a clean path too
	"atword": {"reqs/tool@next", "deploy/user@host", "example.com/lib@latest"},
	"atodd":  {"reqs/lib@v1.5", "reqs/lib@2", "reqs/lib@v02", "x@y/lib"},
	// an element that begins with @ (a scope directory) is not a version suffix
	"atscope": {"@scope/pkg", "example.com/@org/lib", "@a/@b/c", "reqs/@x/y@v2"},
	"percent": {"reqs/a%20b", "example.com/%v@v2", "reqs/100%"},
}

func cfJSON(c *Config) map[string]any {
	reqs := [][]string{}
	names := []string{}
	for n := range c.Requirements {
		names = append(names, n)
	}
	sort.Strings(names)
	for _, n := range names {
		reqs = append(reqs, []string{n, c.Requirements[n].Path, c.Requirements[n].Version})
	}
	ign := c.Ignore
	if ign == nil {
		ign = []string{}
	}
	return map[string]any{"name": c.Name, "version": c.Version, "ignore": ign, "reqs": reqs}
}

func TestVerifConfig(t *testing.T) {
	in, out := os.Getenv("VERIF_CASES"), os.Getenv("VERIF_OUT")
	if in == "" || out == "" {
		t.Skip("VERIF_CASES / VERIF_OUT not set")
	}
	seed, _ := strconv.ParseInt(os.Getenv("VERIF_SEED"), 10, 64)
	rnd := rand.New(rand.NewSource(seed*7 + 2))
	f, err := os.Open(in)
	if err != nil {
		t.Fatal(err)
	}
	defer f.Close()
	of, err := os.OpenFile(out, os.O_APPEND|os.O_CREATE|os.O_WRONLY, 0644)
	if err != nil {
		t.Fatal(err)
	}
	defer of.Close()
	dir := t.TempDir()
	var batch []map[string]any
	nline := 0
	flush := func(force bool) {
		if len(batch) > 0 && (len(batch) >= 300 || force) {
			b, _ := json.Marshal(map[string]any{"id": fmt.Sprintf("config-%d", nline), "events": batch})
			of.Write(append(b, '\n'))
			nline++
			batch = nil
		}
	}
	pick := func(class string) string { xs := cfStrings[class]; return xs[rnd.Intn(len(xs))] }
	sc := bufio.NewScanner(f)
	sc.Buffer(make([]byte, 1<<20), 1<<24)
	for sc.Scan() {
		var cc cfCase
		if json.Unmarshal(sc.Bytes(), &cc) != nil {
			continue
		}
		c := &Config{Name: pick(cc.Name)}
		if rnd.Intn(2) == 0 {
			c.Version = []string{"v1.2.3", "v0.1.0-rc.1", "1.0"}[rnd.Intn(3)]
		}
		for _, ic := range cc.Ignore {
			c.Ignore = append(c.Ignore, pick(ic))
		}
		if cc.NReq > 0 {
			c.Requirements = map[string]RequirementConfig{}
			paths := cfPaths[cc.Path]
			c.Requirements[pick(cc.Key)] = RequirementConfig{Path: paths[rnd.Intn(len(paths))], Version: []string{"v1.2.3", "v0.1.0-rc.1", "v2.0.0"}[rnd.Intn(3)]}
			if cc.NReq > 1 {
				k2 := pick(cc.Key2) + "2"
				c.Requirements[k2] = RequirementConfig{Path: "example.com/other@v2", Version: "v2.3.4"}
				// now and then: names that differ from one another only by letter case
				if rnd.Intn(3) == 0 {
					r2 := []rune(k2)
					for i, v := range []string{strings.ToUpper(k2), strings.ToLower(k2), strings.ToUpper(string(r2[:1])) + string(r2[1:])} {
						if _, ok := c.Requirements[v]; !ok {
							c.Requirements[v] = RequirementConfig{Path: fmt.Sprintf("example.com/case%d", i), Version: "v1.0.0"}
						}
					}
				}
			}
		}
		ev := map[string]any{"ev": "RoundTrip", "cls": cc, "c": cfJSON(c), "c2": cfJSON(&Config{}), "werr": "", "lerr": "", "w2err": "", "same_bytes": false}
		func() {
			defer func() {
				if p := recover(); p != nil {
					ev["werr"] = "panic:" + fmt.Sprint(p)
				}
			}()
			p1, p2 := filepath.Join(dir, "a.toml"), filepath.Join(dir, "b.toml")
			if err := WriteConfigFile(p1, c); err != nil {
				ev["werr"] = err.Error()
				return
			}
			c2, err := LoadConfigFile(p1)
			if err != nil {
				ev["lerr"] = err.Error()
				return
			}
			ev["c2"] = cfJSON(c2)
			if err := WriteConfigFile(p2, c2); err != nil {
				ev["w2err"] = err.Error()
				return
			}
			b1, _ := os.ReadFile(p1)
			b2, _ := os.ReadFile(p2)
			ev["same_bytes"] = string(b1) == string(b2)
		}()
		batch = append(batch, ev)
		flush(false)
	}
	flush(true)
}
