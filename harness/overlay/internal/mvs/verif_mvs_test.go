//go:build verif

package mvs

// Verification harness for dependency resolution (properties C10, C11). Added to package
// internal/mvs at build time with `go test -overlay`; it reuses the package's own fake
// repositories. Each case is a universe (tagged versions and their requirements), root
// requirements and operations; the real BuildList / Tidy / Get / UpgradeAll run over it
// with cold and warm download caches and shuffled declaration orders.

import (
	"bufio"
	"context"
	"encoding/json"
	"errors"
	"fmt"
	"math/rand"
	"os"
	"path/filepath"
	"sort"
	"strconv"
	"strings"
	"sync"
	"testing"
	"time"

	"github.com/pgavlin/dawn/internal/vcs"

	"github.com/pgavlin/dawn/internal/project"
	"golang.org/x/mod/module"
)

// the repository all projects of a universe live in: an arbitrary host (located by probing path
// prefixes) or a well-known one (located by its shape)
var vRepo = "example.com/u"

type vQuery struct {
	Kind string `json:"kind"`
	N    int    `json:"n"`
}

type vOp struct {
	Kind string `json:"kind"`
	Path string `json:"path"`
	Q    vQuery `json:"q"`
	From int    `json:"from,omitempty"` // apply to the result of the From-th operation (1-based) instead of the roots
}

// Version numbers: n < 100 is the tag v?.n.0; n >= 100 is 100*minor + 10*patch + k, the tag
// v?.minor.patch (k = 0) or the untagged revision that follows it (k = 5, a pseudo-version).
// The pseudo-version strings depend on the revision, so they are fixed per universe.
var (
	vPseudo    = map[string]string{} // node -> pseudo-version
	vPseudoRev = map[string]string{} // path + "@" + pseudo-version -> node
)

func vSplit(node string) (string, int) {
	i := strings.LastIndexByte(node, '/')
	n, _ := strconv.Atoi(node[i+1:])
	return node[:i], n
}

func vMajor(p string) string {
	if j := strings.IndexByte(p, '@'); j >= 0 {
		return p[j+1:]
	}
	return "v1"
}

func vTag(p string, n int) string {
	if n < 100 {
		return fmt.Sprintf("%s.%d.0", vMajor(p), n)
	}
	if k := n % 10; k >= 7 {
		// the pre-release -rc.(k-6) of the next tag
		b := (n/10 + 1) * 10
		return fmt.Sprintf("%s.%d.%d-rc.%d", vMajor(p), b/100, (b/10)%10, k-6)
	}
	return fmt.Sprintf("%s.%d.%d", vMajor(p), n/100, (n/10)%10)
}

type vUniverse struct {
	Req map[string][]string `json:"req"`
	// pre-release nodes whose tag sits on the commit of the release they lead to (a release
	// candidate that was promoted as it was): one commit, two tags
	Cotag []string `json:"cotag,omitempty"`
}

type vCase struct {
	ID    string    `json:"id"`
	U     vUniverse `json:"u"`
	Roots []string  `json:"roots"`
	Names []string  `json:"names,omitempty"` // requirement names of the roots (default r<i>)
	Ops   []vOp     `json:"ops"`
	Host  string    `json:"host,omitempty"` // "github": a well-known hosting service
}

// linkRepository is a fake repository whose fetched trees also contain a symbolic link
// (real repositories do); everything else is delegated.
type linkRepository struct {
	*testRepository
}

func (r linkRepository) FetchRevision(ctx context.Context, projectPath string, revision vcs.Revision, destDir string) error {
	if err := r.testRepository.FetchRevision(ctx, projectPath, revision, destDir); err != nil {
		return err
	}
	dir := filepath.Join(destDir, filepath.FromSlash(projectPath))
	os.WriteFile(filepath.Join(dir, "README"), []byte("x"), 0644)
	return os.Symlink("README", filepath.Join(dir, "A-link"))
}

type linkDialer struct{ d testDialer }

func (d linkDialer) dialRepository(ctx context.Context, kind, address string) (vcs.Repository, error) {
	if r, ok := d.d.repos[address]; ok {
		return linkRepository{r}, nil
	}
	return nil, errors.New("unreachable")
}

// node "a/3" or "a@v2/1" -> module version
func vModule(node string) module.Version {
	p, n := vSplit(node)
	if pv, ok := vPseudo[node]; ok {
		return module.Version{Path: vRepo + "/" + p, Version: pv}
	}
	return module.Version{Path: vRepo + "/" + p, Version: vTag(p, n)}
}

func vNode(m module.Version) string {
	p := strings.TrimPrefix(m.Path, vRepo+"/")
	if node, ok := vPseudoRev[p+"@"+m.Version]; ok {
		return node
	}
	v := m.Version
	pseudo := 0
	if module.IsPseudoVersion(v) {
		// a pseudo-version this universe does not have: number it after its base
		base, err := module.PseudoVersionBase(v)
		if err != nil || base == "" {
			return p + "/?" + m.Version
		}
		v, pseudo = base, 7 // 7: not a revision of this universe
	}
	rc := 0
	if i := strings.Index(v, "-rc."); i >= 0 && pseudo == 0 {
		rc, _ = strconv.Atoi(v[i+4:])
		v = v[:i]
	}
	parts := strings.Split(strings.TrimPrefix(v, "v"), ".")
	if len(parts) != 3 {
		return p + "/?" + m.Version
	}
	minor, e1 := strconv.Atoi(parts[1])
	patch, e2 := strconv.Atoi(parts[2])
	if e1 != nil || e2 != nil {
		return p + "/?" + m.Version
	}
	if patch == 0 && pseudo == 0 && !vRich {
		return p + "/" + parts[1]
	}
	if rc > 0 {
		return p + "/" + strconv.Itoa(minor*100+patch*10-10+6+rc)
	}
	return p + "/" + strconv.Itoa(minor*100+patch*10+pseudo)
}

var vRich bool

func vRefName(p string, n int) string {
	return "br-" + strings.ReplaceAll(p, "@", "-") + "-" + strconv.Itoa(n)
}

func vDialer(u *vUniverse) testDialer {
	nodes := make([]string, 0, len(u.Req))
	vRich = false
	for n := range u.Req {
		nodes = append(nodes, n)
		if _, k := vSplit(n); k >= 100 {
			vRich = true
		}
	}
	sort.Strings(nodes)
	vPseudo, vPseudoRev = map[string]string{}, map[string]string{}
	if vRich {
		// one linear history in which every project's versions appear in increasing order,
		// so the closest tagged ancestor of an untagged revision is the tag it follows
		sort.SliceStable(nodes, func(i, j int) bool {
			_, a := vSplit(nodes[i])
			_, b := vSplit(nodes[j])
			return a < b
		})
		for i, n := range nodes {
			if p, k := vSplit(n); k >= 100 && k%10 == 5 {
				id := strconv.Itoa(i + 1)
				pv := module.PseudoVersion(vMajor(p), vTag(p, k-5), time.Unix(100*int64(i+1), 0), id)
				vPseudo[n] = pv
				vPseudoRev[p+"@"+pv] = n
			}
		}
	}
	refs := map[string]string{}
	var revs []map[string]*mvsProject
	for i, n := range nodes {
		m := vModule(n)
		dir := strings.TrimPrefix(project.TrimPathVersion(m.Path), vRepo+"/")
		var reqs []module.Version
		for _, r := range u.Req[n] {
			reqs = append(reqs, vModule(r))
		}
		revs = append(revs, map[string]*mvsProject{dir: {Version: m, Requirements: reqs}})
		if p, k := vSplit(n); vRich {
			refs[vRefName(p, k)] = strconv.Itoa(i + 1)
			if k%10 == 5 {
				continue // an untagged revision
			}
		}
		refs[dir+"/"+m.Version] = strconv.Itoa(i + 1)
	}
	for _, c := range u.Cotag {
		cp, ck := vSplit(c)
		rel := cp + "/" + strconv.Itoa((ck/10+1)*10)
		if _, ok := u.Req[rel]; !ok {
			continue
		}
		cm, rm := vModule(c), vModule(rel)
		cdir := strings.TrimPrefix(project.TrimPathVersion(cm.Path), vRepo+"/")
		rdir := strings.TrimPrefix(project.TrimPathVersion(rm.Path), vRepo+"/")
		if rev, ok := refs[rdir+"/"+rm.Version]; ok {
			refs[cdir+"/"+cm.Version] = rev
			refs[vRefName(cp, ck)] = rev
		}
	}
	refs["main"] = strconv.Itoa(len(nodes))
	return testDialer{repos: map[string]*testRepository{vRepo: {path: vRepo, defaultRef: "main", refs: refs, head: testRevisions(revs)}}}
}

func vRootConfig(roots, names []string, rnd *rand.Rand) *project.Config {
	c := &project.Config{Name: "root", Requirements: map[string]project.RequirementConfig{}}
	idx := rnd.Perm(len(roots))
	for _, i := range idx {
		m := vModule(roots[i])
		name := fmt.Sprintf("r%d", i)
		if i < len(names) && names[i] != "" {
			name = names[i]
		}
		c.Requirements[name] = project.RequirementConfig{Path: m.Path, Version: m.Version}
	}
	return c
}

func vReqsJSON(reqs map[string]project.RequirementConfig) map[string]string {
	out := map[string]string{}
	for n, r := range reqs {
		out[n] = vNode(module.Version{Path: r.Path, Version: r.Version})
	}
	return out
}

func vQueryString(op vOp) string {
	p := vRepo + "/" + op.Path
	v := func(n int) string { return vTag(op.Path, n) }
	switch op.Q.Kind {
	case "ref":
		return p + "@" + vRefName(op.Path, op.Q.N)
	case "latest":
		return p + "@latest"
	case "exact":
		return p + "@" + v(op.Q.N)
	case "lt":
		return p + "@<" + v(op.Q.N)
	case "le":
		return p + "@<=" + v(op.Q.N)
	case "gt":
		return p + "@>" + v(op.Q.N)
	case "ge":
		return p + "@>=" + v(op.Q.N)
	case "upgrade":
		return p + "@upgrade"
	case "patch":
		return p + "@patch"
	}
	return p
}

func TestVerifMVS(t *testing.T) {
	in, out := os.Getenv("VERIF_CASES"), os.Getenv("VERIF_OUT")
	if in == "" || out == "" {
		t.Skip("VERIF_CASES / VERIF_OUT not set")
	}
	seed, _ := strconv.ParseInt(os.Getenv("VERIF_SEED"), 10, 64)
	rnd := rand.New(rand.NewSource(seed*19 + 8))
	f, err := os.Open(in)
	if err != nil {
		t.Fatal(err)
	}
	defer f.Close()
	of, err := os.OpenFile(out, os.O_APPEND|os.O_CREATE|os.O_WRONLY, 0644)
	if err != nil {
		t.Fatal(err)
	}
	defer of.Close()
	ctx := context.Background()
	skipUntil := os.Getenv("VERIF_RESUME_AFTER")
	// a real call that does not return within the limit is reported and the process exits
	// (the stuck goroutine cannot be stopped); the driver resumes after this case
	timedOut := false
	guard := func(f func()) {
		done := make(chan struct{})
		go func() { defer close(done); f() }()
		select {
		case <-done:
		case <-time.After(15 * time.Second):
			timedOut = true
		}
	}
	sc := bufio.NewScanner(f)
	sc.Buffer(make([]byte, 1<<20), 1<<24)
	for sc.Scan() {
		var c vCase
		if json.Unmarshal(sc.Bytes(), &c) != nil {
			continue
		}
		if skipUntil != "" {
			if c.ID == skipUntil {
				skipUntil = ""
			}
			continue
		}
		vRepo = "example.com/u"
		if c.Host == "github" {
			vRepo = "github.com/vorg/vrepo"
		}
		dialer := vDialer(&c.U)
		cache := t.TempDir()
		var events []map[string]any
		var dl Dialer = dialer
		resolve := func(variant string, dir string) {
			ev := map[string]any{"ev": "BuildList", "roots": c.Roots, "result": map[string]int{}, "err": "", "variant": variant}
			guard(func() {
				defer func() {
					if p := recover(); p != nil {
						ev["err"] = "panic:" + fmt.Sprint(p)
					}
				}()
				bl, err := BuildList(ctx, vRootConfig(c.Roots, c.Names, rnd), NewResolver(dir, dl, nil))
				if err != nil {
					ev["err"] = err.Error()
					return
				}
				res := map[string]int{}
				for p, v := range bl {
					if p == "" {
						continue
					}
					node := vNode(module.Version{Path: p, Version: v})
					i := strings.LastIndexByte(node, '/')
					n, _ := strconv.Atoi(node[i+1:])
					res[node[:i]] = n
				}
				ev["result"] = res
			})
			if timedOut {
				ev["err"] = "timeout: the call did not return within 15s"
			}
			events = append(events, ev)
		}
		resolve("cold cache", cache)
		resolve("warm cache, new resolver, other declaration order", cache)
		resolve("cold cache again", t.TempDir())
		// fetched trees that contain a symbolic link, cold then warm
		dl = linkDialer{dialer}
		ldir := t.TempDir()
		resolve("cold cache, fetched trees contain a symbolic link", ldir)
		resolve("warm cache after fetching trees with a symbolic link", ldir)
		dl = dialer
		// two resolvers filling one cold cache at the same time
		if !timedOut {
			cdir := t.TempDir()
			var wg sync.WaitGroup
			var mu sync.Mutex
			for k := 0; k < 2; k++ {
				wg.Add(1)
				go func(k int) {
					defer wg.Done()
					ev := map[string]any{"ev": "BuildList", "roots": c.Roots, "result": map[string]int{}, "err": "", "variant": fmt.Sprintf("concurrent resolver %d on a shared cold cache", k)}
					func() {
						defer func() {
							if p := recover(); p != nil {
								ev["err"] = "panic:" + fmt.Sprint(p)
							}
						}()
						bl, err := BuildList(ctx, vRootConfig(c.Roots, c.Names, rand.New(rand.NewSource(int64(k)))), NewResolver(cdir, dialer, nil))
						if err != nil {
							ev["err"] = err.Error()
							return
						}
						res := map[string]int{}
						for p, v := range bl {
							if p == "" {
								continue
							}
							node := vNode(module.Version{Path: p, Version: v})
							i := strings.LastIndexByte(node, '/')
							n, _ := strconv.Atoi(node[i+1:])
							res[node[:i]] = n
						}
						ev["result"] = res
					}()
					mu.Lock()
					events = append(events, ev)
					mu.Unlock()
				}(k)
			}
			wg.Wait()
		}
		afters := make([]map[string]project.RequirementConfig, len(c.Ops)+1)
		for oi, op := range c.Ops {
			root := vRootConfig(c.Roots, c.Names, rnd)
			if op.From > 0 {
				if op.From > oi || afters[op.From] == nil {
					continue // the operation this one follows did not produce requirements
				}
				root = &project.Config{Name: "root", Requirements: afters[op.From]}
			}
			ev := map[string]any{"ev": "Op", "kind": op.Kind, "path": op.Path, "q": op.Q, "before": vReqsJSON(root.Requirements),
				"after": map[string]string{}, "again": map[string]string{}, "err": "", "expect_ok": op.Kind != "get"}
			if timedOut {
				break
			}
			guard(func() {
				defer func() {
					if p := recover(); p != nil {
						ev["err"] = "panic:" + fmt.Sprint(p)
						ev["expect_ok"] = true
					}
				}()
				apply := func(cfg *project.Config) (map[string]project.RequirementConfig, error) {
					r := NewResolver(cache, dialer, nil)
					switch op.Kind {
					case "tidy":
						return Tidy(ctx, cfg, r)
					case "upgradeall":
						return UpgradeAll(ctx, cfg, r)
					default:
						return Get(ctx, cfg, r, vQueryString(op))
					}
				}
				after, err := apply(root)
				if err != nil {
					ev["err"] = err.Error()
					return
				}
				ev["after"] = vReqsJSON(after)
				afters[oi+1] = after
				again, err := apply(&project.Config{Name: "root", Requirements: after})
				if err != nil {
					ev["err"] = "second application: " + err.Error()
					ev["expect_ok"] = true
					return
				}
				ev["again"] = vReqsJSON(again)
			})
			if timedOut {
				ev = map[string]any{"ev": "Op", "kind": op.Kind, "path": op.Path, "q": op.Q, "before": ev["before"],
					"after": map[string]string{}, "again": map[string]string{}, "err": "timeout: the call did not return within 15s", "expect_ok": true}
			}
			events = append(events, ev)
		}
		b, _ := json.Marshal(map[string]any{"id": c.ID, "cfg": c.U, "events": events})
		of.Write(append(b, '\n'))
		if timedOut {
			of.Close()
			os.Exit(5)
		}
	}
}
