//go:build verif

package mvs

// Verification harness for dependency resolution (properties C10, C11). Added to package
// internal/mvs at build time with `go test -overlay`; it reuses the package's own fake
// repositories. Each case is a universe (tagged versions and their requirements), root
// requirements and operations; the real BuildList / Tidy / Get / UpgradeAll run over it
// with cold and warm download caches and shuffled declaration orders.

import (
	"bufio"
	"context"
	"encoding/json"
	"fmt"
	"math/rand"
	"os"
	"errors"
	"path/filepath"
	"sort"
	"strconv"
	"strings"
	"sync"
	"testing"
	"time"

	"github.com/pgavlin/dawn/internal/vcs"

	"github.com/pgavlin/dawn/internal/project"
	"golang.org/x/mod/module"
)

const vRepo = "example.com/u"

type vQuery struct {
	Kind string `json:"kind"`
	N    int    `json:"n"`
}

type vOp struct {
	Kind string `json:"kind"`
	Path string `json:"path"`
	Q    vQuery `json:"q"`
}

type vUniverse struct {
	Req map[string][]string `json:"req"`
}

type vCase struct {
	ID    string    `json:"id"`
	U     vUniverse `json:"u"`
	Roots []string  `json:"roots"`
	Names []string  `json:"names,omitempty"` // requirement names of the roots (default r<i>)
	Ops   []vOp     `json:"ops"`
}

// linkRepository is a fake repository whose fetched trees also contain a symbolic link
// (real repositories do); everything else is delegated.
type linkRepository struct {
	*testRepository
}

func (r linkRepository) FetchRevision(ctx context.Context, projectPath string, revision vcs.Revision, destDir string) error {
	if err := r.testRepository.FetchRevision(ctx, projectPath, revision, destDir); err != nil {
		return err
	}
	dir := filepath.Join(destDir, filepath.FromSlash(projectPath))
	os.WriteFile(filepath.Join(dir, "README"), []byte("x"), 0644)
	return os.Symlink("README", filepath.Join(dir, "A-link"))
}

type linkDialer struct{ d testDialer }

func (d linkDialer) dialRepository(ctx context.Context, kind, address string) (vcs.Repository, error) {
	if r, ok := d.d.repos[address]; ok {
		return linkRepository{r}, nil
	}
	return nil, errors.New("unreachable")
}

// node "a/3" or "a@v2/1" -> module version
func vModule(node string) module.Version {
	i := strings.LastIndexByte(node, '/')
	p, n := node[:i], node[i+1:]
	major := "v1"
	if j := strings.IndexByte(p, '@'); j >= 0 {
		major = p[j+1:]
	}
	return module.Version{Path: vRepo + "/" + p, Version: fmt.Sprintf("%s.%s.0", major, n)}
}

func vNode(m module.Version) string {
	p := strings.TrimPrefix(m.Path, vRepo+"/")
	parts := strings.Split(strings.TrimPrefix(m.Version, "v"), ".")
	if len(parts) == 3 && parts[2] == "0" {
		return p + "/" + parts[1]
	}
	return p + "/?" + m.Version
}

func vDialer(u *vUniverse) testDialer {
	nodes := make([]string, 0, len(u.Req))
	for n := range u.Req {
		nodes = append(nodes, n)
	}
	sort.Strings(nodes)
	refs := map[string]string{}
	var revs []map[string]*mvsProject
	for i, n := range nodes {
		m := vModule(n)
		dir := strings.TrimPrefix(project.TrimPathVersion(m.Path), vRepo+"/")
		var reqs []module.Version
		for _, r := range u.Req[n] {
			reqs = append(reqs, vModule(r))
		}
		revs = append(revs, map[string]*mvsProject{dir: {Version: m, Requirements: reqs}})
		refs[dir+"/"+m.Version] = strconv.Itoa(i + 1)
	}
	refs["main"] = strconv.Itoa(len(nodes))
	return testDialer{repos: map[string]*testRepository{vRepo: {path: vRepo, defaultRef: "main", refs: refs, head: testRevisions(revs)}}}
}

func vRootConfig(roots, names []string, rnd *rand.Rand) *project.Config {
	c := &project.Config{Name: "root", Requirements: map[string]project.RequirementConfig{}}
	idx := rnd.Perm(len(roots))
	for _, i := range idx {
		m := vModule(roots[i])
		name := fmt.Sprintf("r%d", i)
		if i < len(names) && names[i] != "" {
			name = names[i]
		}
		c.Requirements[name] = project.RequirementConfig{Path: m.Path, Version: m.Version}
	}
	return c
}

func vReqsJSON(reqs map[string]project.RequirementConfig) map[string]string {
	out := map[string]string{}
	for n, r := range reqs {
		out[n] = vNode(module.Version{Path: r.Path, Version: r.Version})
	}
	return out
}

func vQueryString(op vOp) string {
	p := vRepo + "/" + op.Path
	v := func(n int) string {
		major := "v1"
		if j := strings.IndexByte(op.Path, '@'); j >= 0 {
			major = op.Path[j+1:]
		}
		return fmt.Sprintf("%s.%d.0", major, n)
	}
	switch op.Q.Kind {
	case "latest":
		return p + "@latest"
	case "exact":
		return p + "@" + v(op.Q.N)
	case "lt":
		return p + "@<" + v(op.Q.N)
	case "le":
		return p + "@<=" + v(op.Q.N)
	case "gt":
		return p + "@>" + v(op.Q.N)
	case "ge":
		return p + "@>=" + v(op.Q.N)
	case "upgrade":
		return p + "@upgrade"
	case "patch":
		return p + "@patch"
	}
	return p
}

func TestVerifMVS(t *testing.T) {
	in, out := os.Getenv("VERIF_CASES"), os.Getenv("VERIF_OUT")
	if in == "" || out == "" {
		t.Skip("VERIF_CASES / VERIF_OUT not set")
	}
	seed, _ := strconv.ParseInt(os.Getenv("VERIF_SEED"), 10, 64)
	rnd := rand.New(rand.NewSource(seed*19 + 8))
	f, err := os.Open(in)
	if err != nil {
		t.Fatal(err)
	}
	defer f.Close()
	of, err := os.OpenFile(out, os.O_APPEND|os.O_CREATE|os.O_WRONLY, 0644)
	if err != nil {
		t.Fatal(err)
	}
	defer of.Close()
	ctx := context.Background()
	skipUntil := os.Getenv("VERIF_RESUME_AFTER")
	// a real call that does not return within the limit is reported and the process exits
	// (the stuck goroutine cannot be stopped); the driver resumes after this case
	timedOut := false
	guard := func(f func()) {
		done := make(chan struct{})
		go func() { defer close(done); f() }()
		select {
		case <-done:
		case <-time.After(15 * time.Second):
			timedOut = true
		}
	}
	sc := bufio.NewScanner(f)
	sc.Buffer(make([]byte, 1<<20), 1<<24)
	for sc.Scan() {
		var c vCase
		if json.Unmarshal(sc.Bytes(), &c) != nil {
			continue
		}
		if skipUntil != "" {
			if c.ID == skipUntil {
				skipUntil = ""
			}
			continue
		}
		dialer := vDialer(&c.U)
		cache := t.TempDir()
		var events []map[string]any
		var dl Dialer = dialer
		resolve := func(variant string, dir string) {
			ev := map[string]any{"ev": "BuildList", "roots": c.Roots, "result": map[string]int{}, "err": "", "variant": variant}
			guard(func() {
				defer func() {
					if p := recover(); p != nil {
						ev["err"] = "panic:" + fmt.Sprint(p)
					}
				}()
				bl, err := BuildList(ctx, vRootConfig(c.Roots, c.Names, rnd), NewResolver(dir, dl, nil))
				if err != nil {
					ev["err"] = err.Error()
					return
				}
				res := map[string]int{}
				for p, v := range bl {
					if p == "" {
						continue
					}
					node := vNode(module.Version{Path: p, Version: v})
					i := strings.LastIndexByte(node, '/')
					n, _ := strconv.Atoi(node[i+1:])
					res[node[:i]] = n
				}
				ev["result"] = res
			})
			if timedOut {
				ev["err"] = "timeout: the call did not return within 15s"
			}
			events = append(events, ev)
		}
		resolve("cold cache", cache)
		resolve("warm cache, new resolver, other declaration order", cache)
		resolve("cold cache again", t.TempDir())
		// fetched trees that contain a symbolic link, cold then warm
		dl = linkDialer{dialer}
		ldir := t.TempDir()
		resolve("cold cache, fetched trees contain a symbolic link", ldir)
		resolve("warm cache after fetching trees with a symbolic link", ldir)
		dl = dialer
		// two resolvers filling one cold cache at the same time
		if !timedOut {
			cdir := t.TempDir()
			var wg sync.WaitGroup
			var mu sync.Mutex
			for k := 0; k < 2; k++ {
				wg.Add(1)
				go func(k int) {
					defer wg.Done()
					ev := map[string]any{"ev": "BuildList", "roots": c.Roots, "result": map[string]int{}, "err": "", "variant": fmt.Sprintf("concurrent resolver %d on a shared cold cache", k)}
					func() {
						defer func() {
							if p := recover(); p != nil {
								ev["err"] = "panic:" + fmt.Sprint(p)
							}
						}()
						bl, err := BuildList(ctx, vRootConfig(c.Roots, c.Names, rand.New(rand.NewSource(int64(k)))), NewResolver(cdir, dialer, nil))
						if err != nil {
							ev["err"] = err.Error()
							return
						}
						res := map[string]int{}
						for p, v := range bl {
							if p == "" {
								continue
							}
							node := vNode(module.Version{Path: p, Version: v})
							i := strings.LastIndexByte(node, '/')
							n, _ := strconv.Atoi(node[i+1:])
							res[node[:i]] = n
						}
						ev["result"] = res
					}()
					mu.Lock()
					events = append(events, ev)
					mu.Unlock()
				}(k)
			}
			wg.Wait()
		}
		for _, op := range c.Ops {
			root := vRootConfig(c.Roots, c.Names, rnd)
			ev := map[string]any{"ev": "Op", "kind": op.Kind, "path": op.Path, "q": op.Q, "before": vReqsJSON(root.Requirements),
				"after": map[string]string{}, "again": map[string]string{}, "err": "", "expect_ok": op.Kind != "get"}
			if timedOut {
				break
			}
			guard(func() {
				defer func() {
					if p := recover(); p != nil {
						ev["err"] = "panic:" + fmt.Sprint(p)
						ev["expect_ok"] = true
					}
				}()
				apply := func(cfg *project.Config) (map[string]project.RequirementConfig, error) {
					r := NewResolver(cache, dialer, nil)
					switch op.Kind {
					case "tidy":
						return Tidy(ctx, cfg, r)
					case "upgradeall":
						return UpgradeAll(ctx, cfg, r)
					default:
						return Get(ctx, cfg, r, vQueryString(op))
					}
				}
				after, err := apply(root)
				if err != nil {
					ev["err"] = err.Error()
					return
				}
				ev["after"] = vReqsJSON(after)
				again, err := apply(&project.Config{Name: "root", Requirements: after})
				if err != nil {
					ev["err"] = "second application: " + err.Error()
					ev["expect_ok"] = true
					return
				}
				ev["again"] = vReqsJSON(again)
			})
			if timedOut {
				ev = map[string]any{"ev": "Op", "kind": op.Kind, "path": op.Path, "q": op.Q, "before": ev["before"],
					"after": map[string]string{}, "again": map[string]string{}, "err": "timeout: the call did not return within 15s", "expect_ok": true}
			}
			events = append(events, ev)
		}
		b, _ := json.Marshal(map[string]any{"id": c.ID, "cfg": c.U, "events": events})
		of.Write(append(b, '\n'))
		if timedOut {
			of.Close()
			os.Exit(5)
		}
	}
}
