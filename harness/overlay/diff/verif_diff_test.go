//go:build verif

package diff

// Verification harness for diffs (property C16). Added to package diff at build time with
// `go test -overlay`. Enumerates pairs of values (strings, bytes, tuples, lists, dicts, one
// level of nesting, all relative lengths), calls the real Diff, converts the result into
// the record form of EditGraph.tla and logs it for the TLA+ monitor DiffMon.

import (
	"encoding/json"
	"fmt"
	"math/rand"
	"os"
	"strconv"
	"testing"

	"go.starlark.net/starlark"
)

type jv = map[string]any

// encText writes a text one character per byte (a Starlark string is a sequence of bytes, and
// so is what the differ compares): bytes above 0x7f, which need not form valid UTF-8, become
// the code points U+0180..U+01FF so that they survive the trace file.
func encText(s string) string {
	rs := make([]rune, len(s))
	for i := 0; i < len(s); i++ {
		if s[i] < 0x80 {
			rs[i] = rune(s[i])
		} else {
			rs[i] = rune(0x100 + int(s[i]))
		}
	}
	return string(rs)
}

func toJV(v starlark.Value) jv {
	switch x := v.(type) {
	case starlark.String:
		return jv{"t": "str", "v": encText(string(x))}
	case starlark.Bytes:
		return jv{"t": "bytes", "v": encText(string(x))}
	case starlark.Tuple:
		items := make([]any, len(x))
		for i, e := range x {
			items[i] = toJV(e)
		}
		return jv{"t": "tuple", "items": items}
	case *starlark.List:
		items := make([]any, x.Len())
		for i := range items {
			items[i] = toJV(x.Index(i))
		}
		return jv{"t": "list", "items": items}
	case *starlark.Dict:
		items := []any{}
		for _, kv := range x.Items() {
			items = append(items, []any{toJV(kv[0]), toJV(kv[1])})
		}
		return jv{"t": "dict", "items": items}
	case starlark.Int:
		return jv{"t": "int", "v": x.String()}
	case starlark.NoneType:
		return jv{"t": "none", "v": ""}
	case starlark.Bool:
		return jv{"t": "bool", "v": x.String()}
	}
	return jv{"t": "other", "v": v.String()}
}

func diffJV(d starlark.Value) jv {
	switch x := d.(type) {
	case nil:
		return jv{"k": "none"}
	case starlark.NoneType:
		return jv{"k": "none"}
	case *LiteralDiff:
		return jv{"k": "literal", "old": toJV(x.Old()), "new": toJV(x.New())}
	case *SliceableDiff:
		edits := []any{}
		for _, ev := range x.Edits() {
			e := ev.(*Edit)
			if e.Kind() == EditKindReplace {
				ds := []any{}
				for i := 0; i < e.Len(); i++ {
					ds = append(ds, diffJV(e.Index(i)))
				}
				edits = append(edits, jv{"kind": "replace", "diffs": ds})
			} else {
				edits = append(edits, jv{"kind": string(e.Kind()), "vals": toJV(e.Sliceable)})
			}
		}
		return jv{"k": "slice", "old": toJV(x.Old()), "new": toJV(x.New()), "edits": edits}
	case *MappingDiff:
		edits := []any{}
		for _, kv := range x.Edits().Items() {
			e := kv[1].(*Edit)
			var je jv
			if e.Kind() == EditKindReplace {
				je = jv{"kind": "replace", "diff": diffJV(e.Index(0))}
			} else {
				je = jv{"kind": string(e.Kind()), "val": toJV(e.Index(0))}
			}
			edits = append(edits, []any{toJV(kv[0]), je})
		}
		return jv{"k": "mapping", "old": toJV(x.Old()), "new": toJV(x.New()), "edits": edits}
	}
	return jv{"k": "unknown", "type": d.Type()}
}

func seqs(alpha []string, n int) []string {
	res := []string{""}
	prev := []string{""}
	for l := 1; l <= n; l++ {
		var cur []string
		for _, s := range prev {
			for _, c := range alpha {
				cur = append(cur, s+c)
			}
		}
		res = append(res, cur...)
		prev = cur
	}
	return res
}

func mkText(kind, s string) starlark.Value {
	if kind == "bytes" {
		return starlark.Bytes(s)
	}
	return starlark.String(s)
}

func mkSeq(kind, s string, nest int) starlark.Value {
	switch kind {
	case "str":
		return starlark.String(s)
	case "bytes":
		return starlark.Bytes(s)
	}
	items := make([]starlark.Value, len(s))
	for i, c := range s {
		var e starlark.Value
		switch {
		case nest == 1 && c == 'c':
			e = starlark.Tuple{starlark.MakeInt(1), starlark.String("x")}
		case nest == 2 && c == 'c':
			e = starlark.Tuple{starlark.MakeInt(1), starlark.String("y")}
		case nest == 1 && c == 'b':
			e = starlark.String("bb")
		case nest == 2 && c == 'b':
			e = starlark.String("bc")
		default:
			e = starlark.String(string(c))
		}
		items[i] = e
	}
	if kind == "tuple" {
		return starlark.Tuple(items)
	}
	return starlark.NewList(items)
}

func TestVerifDiff(t *testing.T) {
	out := os.Getenv("VERIF_OUT")
	if out == "" {
		t.Skip("VERIF_OUT not set")
	}
	maxLen, _ := strconv.Atoi(os.Getenv("VERIF_DIFF_LEN"))
	if maxLen == 0 {
		maxLen = 4
	}
	nrand, _ := strconv.Atoi(os.Getenv("VERIF_DIFF_RANDOM"))
	seed, _ := strconv.ParseInt(os.Getenv("VERIF_SEED"), 10, 64)
	rnd := rand.New(rand.NewSource(seed*131 + 3))
	of, err := os.OpenFile(out, os.O_APPEND|os.O_CREATE|os.O_WRONLY, 0644)
	if err != nil {
		t.Fatal(err)
	}
	defer of.Close()
	var batch []jv
	nline := 0
	flush := func(force bool) {
		if len(batch) > 0 && (len(batch) >= 150 || force) {
			b, _ := json.Marshal(jv{"id": fmt.Sprintf("diff-%d", nline), "events": batch})
			of.Write(append(b, '\n'))
			nline++
			batch = nil
		}
	}
	try := func(o, n starlark.Value) {
		ev := jv{"ev": "Diff", "old": toJV(o), "new": toJV(n), "res": jv{"k": "none"}, "err": ""}
		func() {
			defer func() {
				if p := recover(); p != nil {
					ev["err"] = "panic:" + fmt.Sprint(p)
				}
			}()
			d, err := Diff(o, n)
			if err != nil {
				ev["err"] = "error:" + err.Error()
				return
			}
			if d == nil {
				return
			}
			ev["res"] = diffJV(d)
			if md, ok := d.(*MappingDiff); ok {
				has := []any{}
				seen := map[string]bool{}
				for _, dd := range []starlark.Value{o, n} {
					for _, kv := range dd.(*starlark.Dict).Items() {
						ks := kv[0].String()
						if !seen[ks] {
							seen[ks] = true
							has = append(has, []any{toJV(kv[0]), bool(md.Has(kv[0]))})
						}
					}
				}
				has = append(has, []any{toJV(starlark.String("absent-key")), bool(md.Has(starlark.String("absent-key")))})
				ev["has"] = has
			}
		}()
		batch = append(batch, ev)
		flush(false)
	}
	ss := seqs([]string{"a", "b", "c"}, maxLen)
	for _, kind := range []string{"str", "bytes", "tuple", "list"} {
		for _, a := range ss {
			for _, b := range ss {
				try(mkSeq(kind, a, 0), mkSeq(kind, b, 0))
			}
		}
	}
	// texts with bytes that are not valid UTF-8 (a lone continuation byte, 0xff) and a two-byte
	// character: a string is compared byte by byte
	bs := seqs([]string{"a", "\xff", "\x80", "\xc3"}, min(maxLen, 3))
	for _, kind := range []string{"str", "bytes"} {
		for _, a := range bs {
			for _, b := range bs {
				try(mkText(kind, a), mkText(kind, b))
			}
		}
	}
	try(starlark.Tuple{starlark.String("x\x80y"), starlark.String("\xff")}, starlark.Tuple{starlark.String("xy"), starlark.String("\xfe")})
	// one level of nesting and mixed kinds on shorter sequences
	short := seqs([]string{"a", "b", "c"}, min(maxLen, 3))
	for _, a := range short {
		for _, b := range short {
			try(mkSeq("tuple", a, 1), mkSeq("tuple", b, 2))
			try(mkSeq("list", a, 1), mkSeq("tuple", b, 1))
			try(mkSeq("str", a, 0), mkSeq("tuple", b, 0))
			try(mkSeq("str", a, 0), mkSeq("bytes", b, 0))
		}
	}
	// dicts over <= 3 keys with atom / sequence values
	vals := []starlark.Value{starlark.MakeInt(1), starlark.MakeInt(2), starlark.String("ab"), starlark.String("ac"), starlark.Tuple{starlark.MakeInt(1)}, starlark.Tuple{starlark.MakeInt(2)}}
	keys := []starlark.Value{starlark.String("k1"), starlark.String("k2"), starlark.MakeInt(3)}
	var dicts []*starlark.Dict
	var rec func(i int, cur [][2]starlark.Value)
	rec = func(i int, cur [][2]starlark.Value) {
		if i == len(keys) {
			d := starlark.NewDict(len(cur))
			for _, kv := range cur {
				d.SetKey(kv[0], kv[1])
			}
			dicts = append(dicts, d)
			return
		}
		rec(i+1, cur)
		for _, v := range vals[:4+i%3] {
			rec(i+1, append(append([][2]starlark.Value{}, cur...), [2]starlark.Value{keys[i], v}))
		}
	}
	rec(0, nil)
	for i, a := range dicts {
		for j, b := range dicts {
			if (i*31+j)%7 == int(seed%7) || len(dicts) < 60 {
				try(a, b)
			}
		}
	}
	// nested dicts / dict in sequence
	d1 := starlark.NewDict(2)
	d1.SetKey(starlark.String("env"), dicts[len(dicts)/2])
	d1.SetKey(starlark.String("code"), starlark.Bytes("abc"))
	d2 := starlark.NewDict(2)
	d2.SetKey(starlark.String("env"), dicts[len(dicts)/3])
	d2.SetKey(starlark.String("code"), starlark.Bytes("abd"))
	try(d1, d2)
	try(d2, d1)
	try(starlark.Tuple{d1, starlark.MakeInt(1)}, starlark.Tuple{d2, starlark.MakeInt(1), starlark.MakeInt(2)})
	// seeded random longer sequences of all relative lengths
	for i := 0; i < nrand; i++ {
		mk := func() string {
			n := rnd.Intn(14)
			b := make([]byte, n)
			for j := range b {
				b[j] = "abcd"[rnd.Intn(4)]
			}
			return string(b)
		}
		kind := []string{"str", "bytes", "tuple", "list"}[rnd.Intn(4)]
		try(mkSeq(kind, mk(), rnd.Intn(3)), mkSeq(kind, mk(), rnd.Intn(3)))
	}
	flush(true)
}
