//go:build verif

package label

// Verification harness for labels (property C12). Added to package label at build time
// with `go test -overlay`. Enumerates every string over the label alphabet up to a bound,
// plus seeded longer strings, and logs Parse / String / RelativeTo results for LabelMon.

import (
	"encoding/json"
	"fmt"
	"math/rand"
	"os"
	"strconv"
	"testing"
)

type lj = map[string]any

func labJ(l *Label) lj {
	return lj{"kind": l.Kind, "project": l.Project, "pkg": l.Package, "name": l.Name}
}

func parseJ(s string) (out lj, l *Label) {
	out = lj{"outcome": "error", "l": lj{"kind": "", "project": "", "pkg": "", "name": ""}}
	defer func() {
		if p := recover(); p != nil {
			out["outcome"] = "panic"
		}
	}()
	ll, err := Parse(s)
	if err != nil {
		return out, nil
	}
	out["outcome"], out["l"] = "ok", labJ(ll)
	return out, ll
}

func TestVerifLabel(t *testing.T) {
	out := os.Getenv("VERIF_OUT")
	if out == "" {
		t.Skip("VERIF_OUT not set")
	}
	maxLen, _ := strconv.Atoi(os.Getenv("VERIF_LABEL_LEN"))
	if maxLen == 0 {
		maxLen = 5
	}
	nrand, _ := strconv.Atoi(os.Getenv("VERIF_LABEL_RANDOM"))
	seed, _ := strconv.ParseInt(os.Getenv("VERIF_SEED"), 10, 64)
	rnd := rand.New(rand.NewSource(seed*17 + 1))
	of, err := os.OpenFile(out, os.O_APPEND|os.O_CREATE|os.O_WRONLY, 0644)
	if err != nil {
		t.Fatal(err)
	}
	defer of.Close()
	var batch []lj
	nline := 0
	flush := func(force bool) {
		if len(batch) > 0 && (len(batch) >= 400 || force) {
			b, _ := json.Marshal(lj{"id": fmt.Sprintf("label-%d", nline), "events": batch})
			of.Write(append(b, '\n'))
			nline++
			batch = nil
		}
	}
	alpha := []string{"a", "b", "/", ":", ".", "@"}
	pkgs := []string{"//", "//a", "//a/b", "//a//b", "//a/b/", "///a"}
	try := func(s string) {
		pj, l := parseJ(s)
		ev := lj{"ev": "Parse", "s": s, "outcome": pj["outcome"], "l": pj["l"], "printed": "", "re": lj{"outcome": "none", "l": pj["l"]}}
		if l != nil {
			printed := l.String()
			ev["printed"] = printed
			re, _ := parseJ(printed)
			ev["re"] = re
		}
		batch = append(batch, ev)
		if l != nil {
			for _, p := range pkgs {
				rev := lj{"ev": "Rel", "l": labJ(l), "pkg": p, "outcome": "error", "r": labJ(l), "printed": "", "re": lj{"outcome": "none", "l": labJ(l)}}
				func() {
					defer func() {
						if pp := recover(); pp != nil {
							rev["outcome"] = "panic"
						}
					}()
					r, err := l.RelativeTo(p)
					if err != nil {
						return
					}
					rev["outcome"], rev["r"] = "ok", labJ(r)
					printed := r.String()
					rev["printed"] = printed
					re, _ := parseJ(printed)
					rev["re"] = re
				}()
				batch = append(batch, rev)
			}
		}
		flush(false)
	}
	prev := []string{""}
	try("")
	for l := 1; l <= maxLen; l++ {
		var cur []string
		for _, s := range prev {
			for _, c := range alpha {
				cur = append(cur, s+c)
			}
		}
		for _, s := range cur {
			try(s)
		}
		prev = cur
	}
	long := []string{"a", "b", "/", ":", ".", "@", "//", "..", "kind:", "proj", "@v2", "pkg/", "x"}
	for i := 0; i < nrand; i++ {
		n := 2 + rnd.Intn(12)
		s := ""
		for j := 0; j < n; j++ {
			s += long[rnd.Intn(len(long))]
		}
		try(s)
	}
	flush(true)
}
