// Package sched is the controlled scheduler and trace recorder shared by the
// verification harnesses. It is added to the module under test with `go test -overlay`
// (import path github.com/pgavlin/dawn/internal/zzverif/sched); it does not live in the
// repository.
package sched

import (
	"bytes"
	"encoding/json"
	"fmt"
	"math/rand"
	"os"
	"runtime"
	"sort"
	"strconv"
	"sync"
	"sync/atomic"
	"testing/synctest"
	"time"
)

// GID returns the current goroutine's id.
func GID() int64 {
	var buf [64]byte
	n := runtime.Stack(buf[:], false)
	// "goroutine 123 ["
	b := buf[:n]
	b = b[len("goroutine "):]
	i := bytes.IndexByte(b, ' ')
	id, _ := strconv.ParseInt(string(b[:i]), 10, 64)
	return id
}

// Event is one logged event.
type Event map[string]any

// Recorder collects the events of one execution under one mutex.
type Recorder struct {
	mu     sync.Mutex
	events []Event
	// Sink, when set, receives every event as it is logged (under the recorder's lock).
	Sink func(Event)
}

func (r *Recorder) Log(ev string, kv ...any) {
	e := Event{"ev": ev}
	for i := 0; i+1 < len(kv); i += 2 {
		e[kv[i].(string)] = kv[i+1]
	}
	r.mu.Lock()
	r.events = append(r.events, e)
	if r.Sink != nil {
		r.Sink(e)
	}
	r.mu.Unlock()
}

func (r *Recorder) Events() []Event {
	r.mu.Lock()
	defer r.mu.Unlock()
	return append([]Event(nil), r.events...)
}

func (r *Recorder) Len() int {
	r.mu.Lock()
	defer r.mu.Unlock()
	return len(r.events)
}

// Parked describes a goroutine waiting at a yield point.
type Parked struct {
	G      int64
	Thread string
	Point  string
	Label  string
	ch     chan struct{}
}

// Sched is a controlled scheduler. In controlled mode every goroutine that reaches a
// yield parks until the scheduler loop releases it; the loop runs inside a synctest
// bubble and uses synctest.Wait to wait until every goroutine is parked or durably
// blocked (cond wait, wait group, finished).
type Sched struct {
	mu     sync.Mutex
	parked []*Parked
	names  map[int64]string

	// Name derives the thread name of a goroutine from its first yield.
	Name func(point, label string) string

	Free      bool // free-running: yields only perturb the schedule
	FreeSeed  uint64
	freeCtr   atomic.Uint64
	FreeNoise int // 0 = none, 1 = gosched, 2 = gosched+sleep

	Progress *atomic.Int64

	// Timed: park on plain channels and detect quiescence by wall-clock (no synctest
	// bubble); used to re-execute a schedule on which the bubble stalled.
	Timed  bool
	parkCt atomic.Int64
}

func New() *Sched { return &Sched{names: map[int64]string{}} }

// Bind names the calling goroutine.
func (s *Sched) Bind(name string) {
	g := GID()
	s.mu.Lock()
	s.names[g] = name
	s.mu.Unlock()
}

func splitmix(x uint64) uint64 {
	x += 0x9e3779b97f4a7c15
	x = (x ^ (x >> 30)) * 0xbf58476d1ce4e5b9
	x = (x ^ (x >> 27)) * 0x94d049bb133111eb
	return x ^ (x >> 31)
}

// Yield is installed as the hook function.
func (s *Sched) Yield(point, label string) {
	if s.Free {
		if s.FreeNoise == 0 {
			return
		}
		x := splitmix(s.FreeSeed + s.freeCtr.Add(1))
		switch {
		case x%4 == 0:
			runtime.Gosched()
		case s.FreeNoise >= 2 && x%64 == 1:
			time.Sleep(time.Duration(x>>8%40) * time.Microsecond)
		}
		return
	}
	g := GID()
	p := &Parked{G: g, Point: point, Label: label, ch: make(chan struct{})}
	s.parkCt.Add(1)
	s.mu.Lock()
	name, ok := s.names[g]
	if !ok {
		if s.Name != nil {
			name = s.Name(point, label)
		}
		if name == "" {
			name = fmt.Sprintf("g%d", g)
		}
		s.names[g] = name
	}
	p.Thread = name
	s.parked = append(s.parked, p)
	s.mu.Unlock()
	<-p.ch
}

// Snapshot returns the parked goroutines sorted by thread name (deterministic).
func (s *Sched) Snapshot() []*Parked {
	s.mu.Lock()
	ps := append([]*Parked(nil), s.parked...)
	s.mu.Unlock()
	sort.SliceStable(ps, func(i, j int) bool {
		if ps[i].Thread != ps[j].Thread {
			return ps[i].Thread < ps[j].Thread
		}
		return ps[i].Point < ps[j].Point
	})
	return ps
}

func (s *Sched) release(p *Parked) {
	s.mu.Lock()
	for i, q := range s.parked {
		if q == p {
			s.parked = append(s.parked[:i], s.parked[i+1:]...)
			break
		}
	}
	s.mu.Unlock()
	close(p.ch)
}

// Picker chooses the next goroutine to release.
type Picker interface {
	Pick(step int, parked []*Parked) int
}

// RandomPicker picks uniformly.
type RandomPicker struct{ R *rand.Rand }

func (p *RandomPicker) Pick(step int, parked []*Parked) int { return p.R.Intn(len(parked)) }

// PCTPicker gives every thread a random priority and lowers the running thread's
// priority at a few random change points (PCT).
type PCTPicker struct {
	R       *rand.Rand
	prio    map[string]int
	changes map[int]bool
	low     int
}

func NewPCT(r *rand.Rand, depth, maxSteps int) *PCTPicker {
	p := &PCTPicker{R: r, prio: map[string]int{}, changes: map[int]bool{}}
	for i := 0; i < depth; i++ {
		p.changes[r.Intn(maxSteps)] = true
	}
	return p
}

func (p *PCTPicker) Pick(step int, parked []*Parked) int {
	best, bi := -1 << 30, 0
	for i, q := range parked {
		pr, ok := p.prio[q.Thread]
		if !ok {
			pr = 1000 + p.R.Intn(1000000)
			p.prio[q.Thread] = pr
		}
		if pr > best {
			best, bi = pr, i
		}
	}
	if p.changes[step] {
		p.low--
		p.prio[parked[bi].Thread] = p.low
	}
	return bi
}

// ScriptPicker follows a list of thread names; when the named thread is not parked it
// records the divergence and falls back to the fallback picker.
type ScriptPicker struct {
	Script   []string
	Fallback Picker
	Diverged int // step of first divergence, -1 if none
	pos      int
}

func (p *ScriptPicker) Pick(step int, parked []*Parked) int {
	if p.Diverged < 0 && p.pos < len(p.Script) {
		want := p.Script[p.pos]
		p.pos++
		for i, q := range parked {
			if q.Thread == want {
				return i
			}
		}
		p.Diverged = step
	} else if p.Diverged < 0 {
		p.Diverged = step
	}
	return p.Fallback.Pick(step, parked)
}

// Loop is the scheduler loop; it must run inside a synctest bubble. It returns when no
// goroutine is parked at a yield any more. onQuiesce is called at every quiescent point
// (before the next release) and onStep just before a release. After maxSteps releases the
// picker is replaced by a fair round-robin over the parked threads; if the execution has
// still not finished after extra more releases it is reported as a livelock (every
// goroutine got its turn again and again and the execution does not end).
func (s *Sched) Loop(pick Picker, maxSteps, extra int, onQuiesce func(step int), onStep func(step int, p *Parked)) (steps int, exhausted, livelock bool) {
	last := ""
	run := 0
	rr := 0
	for step := 0; ; step++ {
		synctest.Wait()
		if s.Progress != nil {
			s.Progress.Add(1)
		}
		ps := s.Snapshot()
		if onQuiesce != nil && step <= maxSteps {
			onQuiesce(step)
		}
		if len(ps) == 0 {
			return step, exhausted, false
		}
		if step >= maxSteps+extra {
			return step, true, true
		}
		var i int
		if step >= maxSteps {
			exhausted = true
			rr++
			i = rr % len(ps)
		} else {
			i = pick.Pick(step, ps)
			if sp, ok := pick.(*ScriptPicker); ok && sp.Diverged < 0 {
				last = ""
			}
			// fairness: a thread released 40 times in a row while others are parked
			// yields its turn (a cycle walk can spin until the others move)
			if last != "" && ps[i].Thread == last {
				run++
				if run >= 40 && len(ps) > 1 {
					i = (i + 1 + step%(len(ps)-1)) % len(ps)
					run = 0
				}
			} else {
				run = 0
			}
			if sp, ok := pick.(*ScriptPicker); !ok || sp.Diverged >= 0 {
				last = ps[i].Thread
			}
		}
		if onStep != nil && step < maxSteps {
			onStep(step, ps[i])
		}
		s.release(ps[i])
	}
}

// Activity is bumped by harnesses when a tracked goroutine starts or ends (timed mode).
func (s *Sched) Activity() { s.parkCt.Add(1) }

// quiesceTimed waits until no park/activity event has happened for the given window.
func (s *Sched) quiesceTimed(window time.Duration) {
	last, since := s.parkCt.Load(), time.Now()
	for {
		time.Sleep(time.Millisecond)
		cur := s.parkCt.Load()
		if cur != last {
			last, since = cur, time.Now()
			continue
		}
		if time.Since(since) >= window {
			return
		}
	}
}

// LoopTimed re-executes a schedule without a bubble: after every release it waits until
// the system has been quiet for `window`. When the script is exhausted (or its next thread
// is not parked) all parked goroutines are released together, repeatedly, until done()
// or until nothing is parked and nothing happens for `grace`. It returns false when the
// execution did not finish: every goroutine is blocked although all were released.
func (s *Sched) LoopTimed(script []string, window, grace time.Duration, done func() bool, onStep func(p *Parked)) (finished bool, diverged int) {
	diverged = -1
	pos := 0
	deadline := time.Time{}
	for step := 0; ; step++ {
		s.quiesceTimed(window)
		if done() {
			return true, diverged
		}
		ps := s.Snapshot()
		if len(ps) == 0 {
			if deadline.IsZero() {
				deadline = time.Now().Add(grace)
			} else if time.Now().After(deadline) {
				return false, diverged
			}
			continue
		}
		deadline = time.Time{}
		if diverged < 0 && pos < len(script) {
			var hit *Parked
			for _, p := range ps {
				if p.Thread == script[pos] {
					hit = p
					break
				}
			}
			pos++
			if hit != nil {
				if onStep != nil {
					onStep(hit)
				}
				s.release(hit)
				continue
			}
			diverged = step
		} else if diverged < 0 {
			diverged = step
		}
		for _, p := range ps {
			if onStep != nil {
				onStep(p)
			}
			s.release(p)
		}
	}
}

// Watchdog exits the process with code 4 if the progress counter does not move for the
// given duration while armed. It runs outside any bubble.
func Watchdog(progress *atomic.Int64, armed *atomic.Bool, d time.Duration, onStall func()) {
	go func() {
		last, since := progress.Load(), time.Now()
		for {
			time.Sleep(100 * time.Millisecond)
			cur := progress.Load()
			if cur != last || !armed.Load() {
				last, since = cur, time.Now()
				continue
			}
			if time.Since(since) > d {
				if onStall != nil {
					onStall()
				}
				os.Exit(4)
			}
		}
	}()
}

// WriteLine appends one JSON line to a file.
func WriteLine(f *os.File, v any) error {
	b, err := json.Marshal(v)
	if err != nil {
		return err
	}
	b = append(b, '\n')
	_, err = f.Write(b)
	return err
}

// AllStacks returns a dump of all goroutines.
func AllStacks() string {
	buf := make([]byte, 1<<20)
	n := runtime.Stack(buf, true)
	return string(buf[:n])
}
