"""Module-loader family (C06): TLC checks ModLoad.tla (x) ModLoadMon (safety, deadlock,
termination) over load graphs; the real dawn.Load is run on generated project trees under
TLC-generated, random and PCT schedules of the controlled scheduler and free-running;
every real execution is evaluated by the TLA+ monitor; controlled traces are validated
against the design spec."""
import json
import os
import random
import time

import vlib
from vlib import Inconclusive

SPEC = os.path.join(vlib.VERIF, "specs", "modload")
# which variant of module.wait the design spec models: "fixed" after the repair of the
# self-deadlock (see DESIGN.md section 6, defect 6), "current" before it.
WALK = os.environ.get("VERIF_MODLOAD_WALK", "fixed")


def tla_seq(xs):
    return "<<" + ", ".join('"%s"' % x for x in xs) + ">>"


def cfg_to_tla(c):
    loads = ", ".join("%s |-> %s" % (m, tla_seq(ds)) for m, ds in sorted(c["loads"].items()))
    return "[loads |-> [%s], roots |-> %s, bad |-> %s, nofetch |-> %s]" % (
        loads, tla_seq(c["roots"]), tla_seq(c["bad"]), tla_seq(c.get("nofetch") or []))


def mk(loads, roots, bad=(), kinds=None, spell=None):
    """kinds: how a bad leaf helper fails other than by fail() in its body: missing | syntax | nofetch"""
    kinds = dict(kinds or {})
    for m, k in kinds.items():
        assert m in bad and not loads[m] and m not in roots, (m, k)
    c = {"loads": {k: list(v) for k, v in loads.items()}, "roots": list(roots), "bad": list(bad),
         "nofetch": sorted(m for m, k in kinds.items() if k == "nofetch")}
    if kinds:
        c["kinds"] = kinds
    if spell:
        c["spell"] = dict(spell)     # package modules that are loaded by their package label ("//p2")
    return c


def shape_key(c):
    return json.dumps({k: c.get(k) or [] for k in ("loads", "roots", "bad", "nofetch")}, sort_keys=True)


CURATED = [
    mk({"p1": ["m1"], "m1": []}, ["p1"]),
    mk({"p1": ["m1", "m2"], "m1": ["m2"], "m2": []}, ["p1"]),                       # chain + diamond
    mk({"p1": ["m1"], "p2": ["m1"], "m1": []}, ["p1", "p2"]),                        # shared leaf helper
    mk({"p1": ["m1"], "p2": ["m1"], "m1": ["m2"], "m2": []}, ["p1", "p2"]),          # shared helper that loads another module
    mk({"p1": ["m1"], "p2": ["m1"], "p3": ["m2"], "m1": ["m2"], "m2": ["m3"], "m3": []}, ["p1", "p2", "p3"]),
    mk({"p1": ["m1"], "m1": ["m1"]}, ["p1"]),                                        # self-load
    mk({"p1": ["m1"], "m1": ["m2"], "m2": ["m1"]}, ["p1"]),                          # 2-cycle, one goroutine
    mk({"p1": ["m1"], "p2": ["m2"], "m1": ["m2"], "m2": ["m1"]}, ["p1", "p2"]),      # 2-cycle entered from both sides
    mk({"p1": ["m1"], "m1": ["m2"], "m2": ["m3"], "m3": ["m1"]}, ["p1"]),            # 3-cycle, one goroutine
    mk({"p1": ["m2"], "p2": ["m3"], "p3": ["m1"], "m1": ["m2"], "m2": ["m3"], "m3": ["m1"]}, ["p1", "p2", "p3"]),
    mk({"p1": ["m1"], "p2": ["m3"], "m1": ["m2"], "m2": ["m1"], "m3": ["m1"]}, ["p1", "p2"]),  # cycle + outside waiter
    mk({"p1": ["m1"], "p2": ["m1"], "m1": []}, ["p1", "p2"], bad=["m1"]),            # failing shared module
    mk({"p1": ["m1", "m2"], "p2": ["m2"], "m1": [], "m2": []}, ["p1", "p2"], bad=["m1"]),
    mk({"p1": ["m1"], "p2": ["m2"], "m1": ["m3"], "m2": ["m3"], "m3": []}, ["p1", "p2"], bad=["p2"]),
    mk({"p1": ["m1", "m2"], "p2": ["m2", "m1"], "m1": [], "m2": []}, ["p1", "p2"]),  # opposite load orders
    # packages that load another package's build file, by either spelling of its label
    mk({"p1": ["p2"], "p2": []}, ["p1", "p2"]),
    mk({"p1": ["p2"], "p2": ["m1"], "m1": []}, ["p1", "p2"], spell={"p2": "short"}),
    mk({"p1": ["p3"], "p2": ["p3"], "p3": []}, ["p1", "p2", "p3"], spell={"p3": "short"}),
    mk({"p1": ["p2"], "p2": ["p1"]}, ["p1", "p2"], spell={"p1": "short"}),
    # a helper named relative to the loading package by some, absolutely by nobody else
    # the root package (p0) names a helper relative to itself, the others name it absolutely
    mk({"p0": ["m1"], "p1": ["m1"], "m1": ["m2"], "m2": []}, ["p0", "p1"], spell={"p0>m1": "rel"}),
    mk({"p0": ["m1", "m2"], "p1": ["m2"], "m1": ["m2"], "m2": []}, ["p0", "p1"], spell={"p0>m2": "rel"}),
    mk({"p0": ["m1"], "p1": ["m1"], "p2": ["p0"], "m1": []}, ["p0", "p1", "p2"], spell={"p0>m1": "rel", "p0": "short"}),
    # a shared helper that cannot be read / parsed / fetched
    mk({"p1": ["m1"], "p2": ["m1"], "m1": []}, ["p1", "p2"], bad=["m1"], kinds={"m1": "missing"}),
    mk({"p1": ["m1"], "p2": ["m1"], "m1": []}, ["p1", "p2"], bad=["m1"], kinds={"m1": "syntax"}),
    mk({"p1": ["m1"], "p2": ["m1"], "m1": []}, ["p1", "p2"], bad=["m1"], kinds={"m1": "nofetch"}),
    mk({"p1": ["m2"], "p2": ["m2"], "p3": ["m1"], "m2": ["m1"], "m1": []}, ["p1", "p2", "p3"], bad=["m1"], kinds={"m1": "nofetch"}),
    mk({"p1": ["m2", "m1"], "p2": ["m1"], "m2": [], "m1": []}, ["p1", "p2"], bad=["m1"], kinds={"m1": "missing"}),
    mk({"p1": ["m1"], "p2": [], "m1": []}, ["p1", "p2"]),
]


def random_cfg(rnd, nroots=None, nlibs=None, cyclic_ok=True, p_bad=0.15):
    nroots = nroots or rnd.randrange(1, 4)
    nlibs = nlibs or rnd.randrange(1, 5)
    roots = ["p%d" % (i + 1) for i in range(nroots)]
    libs = ["m%d" % (i + 1) for i in range(nlibs)]
    loads = {}
    for r in roots:
        loads[r] = rnd.sample(libs, rnd.randrange(1, min(3, nlibs) + 1))
    for i, m in enumerate(libs):
        cand = libs if cyclic_ok else libs[i + 1:]
        k = rnd.choice([0, 0, 1, 1, 2])
        loads[m] = rnd.sample(cand, min(k, len(cand)))
    bad = [m for m in roots + libs if rnd.random() < p_bad / 2] if rnd.random() < p_bad * 2 else []
    kinds = {}
    for m in bad:
        if m in libs and rnd.random() < 0.6:
            loads[m] = []
            kinds[m] = rnd.choice(["missing", "syntax", "nofetch"])
    spell = {}
    if nroots > 1 and rnd.random() < 0.25:
        a, b = rnd.sample(roots, 2)
        loads[a] = loads[a] + [b]
        if rnd.random() < 0.6:
            spell[b] = "short"
    if rnd.random() < 0.3:
        # the first package is the root package and may name helpers relative to itself
        old = roots[0]
        roots[0] = "p0"
        loads["p0"] = loads.pop(old)
        for a in list(loads):
            loads[a] = ["p0" if b == old else b for b in loads[a]]
        spell = {("p0" if k == old else k): v for k, v in spell.items()}
        bad = ["p0" if b == old else b for b in bad]
        for b in loads["p0"]:
            if b in libs and rnd.random() < 0.5:
                spell["p0>%s" % b] = "rel"
    return mk(loads, roots, bad, kinds, spell)


def design_cfgs(tier, rnd):
    cfgs = list(CURATED)
    for i in range(30 if tier == "quick" else 200):
        cfgs.append(random_cfg(rnd, cyclic_ok=(i % 3 != 0)))
    seen, res = set(), []
    for c in cfgs:
        k = json.dumps(c, sort_keys=True)
        if k not in seen:
            seen.add(k)
            res.append(c)
    return res


# which variant of module.load the design spec models when module.env fails: "done" after the
# repair (defect 15), "nodone" before it
ENVFAIL = os.environ.get("VERIF_MODLOAD_ENVFAIL", "done")


def design_check(cfgs, walk):
    body = "---- MODULE MCModGen ----\nEXTENDS ModLoad\nMCCfgs == {\n  " + ",\n  ".join(cfg_to_tla(c) for c in cfgs) + "\n}\n====\n"
    cfgtxt = ("SPECIFICATION Spec\nCONSTANTS\n  Cfgs <- MCCfgs\n  Walk = \"%s\"\n  EnvFail = \"%s\"\nINVARIANTS NoViolation OnceOnly EdgesOK\n"
              "PROPERTY Termination\nVIEW View\nCHECK_DEADLOCK TRUE\n" % (walk, ENVFAIL))
    rc, out, wd = vlib.tlc(SPEC, "MCModGen", cfg="MCModGen.cfg", workers=16, timeout=2400, heap="12g",
                           files={"MCModGen.tla": body, "MCModGen.cfg": cfgtxt})
    gen, dist = vlib.tlc_stats(out)
    ok = "Model checking completed. No error has been found." in out
    return {"ok": ok, "generated": gen, "distinct": dist, "configs": len(cfgs), "walk": walk, "errors": vlib.tlc_error(out)[:4]}


def gen_schedules(cfgs, num, sd, walk):
    body = "---- MODULE MCGen ----\nEXTENDS ModLoadGen\nGenCfgs == {\n  " + ",\n  ".join(cfg_to_tla(c) for c in cfgs) + "\n}\n====\n"
    cfgtxt = "SPECIFICATION GenSpec\nCONSTANTS\n  Cfgs <- GenCfgs\n  Walk = \"%s\"\n  EnvFail = \"%s\"\nCHECK_DEADLOCK FALSE\n" % (walk, ENVFAIL)
    by_shape = {shape_key(c): c for c in cfgs}
    rc, out, wd = vlib.tlc(SPEC, "MCGen", cfg="MCGen.cfg", workers=1, timeout=600, heap="3g",
                           files={"MCGen.tla": body, "MCGen.cfg": cfgtxt},
                           args=["-simulate", "num=%d" % num, "-depth", "1500", "-seed", str(sd), "-deadlock"])
    res = []
    for h in vlib.tlc_prints(out, "HIST"):
        if isinstance(h, dict):
            c = h["cfg"]
            c = {"loads": c["loads"], "roots": list(c["roots"]), "bad": list(c.get("bad") or []), "nofetch": list(c.get("nofetch") or [])}
            res.append((by_shape.get(shape_key(c), c), list(h["h"]), h.get("end")))
    if not res:
        raise Inconclusive("TLC generated no module-load schedules:\n" + out[-2000:])
    return res


def make_cases(tier, sd, walk):
    rnd = random.Random(sd * 104729 + 3)
    quick = tier == "quick"
    cases = []

    def add(prefix, cfg, mode, **kw):
        cases.append(dict(id="%s-%d" % (prefix, len(cases)), cfg=cfg, mode=mode, seed=rnd.randrange(1 << 30), **kw))

    gen_cfgs = CURATED + [random_cfg(rnd) for _ in range(20 if quick else 100)]
    for c, h, end in gen_schedules(gen_cfgs, 400 if quick else 3000, sd, walk):
        add("tlc", c, "script", schedule=h)
    for c in CURATED:
        for r in range(6 if quick else 40):
            add("cur", c, "pct" if r % 2 else "random")
    for i in range(150 if quick else 1500):
        add("rnd", random_cfg(rnd, cyclic_ok=(i % 3 != 0)), "pct" if i % 2 else "random")
    # free-running: many packages sharing helpers
    for i in range(16 if quick else 80):
        n = rnd.randrange(4, 13)
        roots = ["p%d" % (j + 1) for j in range(n)]
        kind = i % 4
        if kind == 0:
            loads = {r: ["m1"] for r in roots}
            loads.update({"m1": []})
        elif kind == 1:
            loads = {r: ["m1"] for r in roots}
            loads.update({"m1": ["m2"], "m2": ["m3"], "m3": []})
        elif kind == 2:
            loads = {r: [rnd.choice(["m1", "m2", "m3"])] for r in roots}
            loads.update({"m1": ["m2"], "m2": ["m3"], "m3": ["m1"]})
        else:
            c = random_cfg(rnd, nroots=min(n, 6), nlibs=4)
            add("str", c, "stress", reps=6 if quick else 20)
            continue
        add("str", mk(loads, roots), "stress", reps=6 if quick else 20)
    return cases


def to_p_line(t):
    ev = []
    for e in t["events"]:
        if e["ev"] in ("HarnessPanic",):
            continue
        e = {k: v for k, v in e.items() if k not in ("msg", "dump", "kind")}
        ev.append(e)
    return {"id": t["id"], "cfg": t["cfg"], "events": ev}


def pipeline(tier):
    t0 = time.time()
    sd = vlib.seed()
    rnd = random.Random(sd)
    wd = vlib.scratch("modload-")
    res = {"family": "modload", "tier": tier, "seed": sd, "walk": WALK}
    res["design"] = design_check(design_cfgs(tier, rnd), WALK)
    cases = make_cases(tier, sd, WALK)
    binary = vlib.build_test("", wd, name="dawn")
    traces = vlib.run_harness(binary, "TestVerifModLoad", cases, wd)
    traces, crashes = vlib.split_crashes(traces)
    by_id = {c["id"]: c for c in cases}
    stalls = [t for t in traces if t.get("stall")]
    traces = [t for t in traces if not t.get("stall")]
    res["stalls"] = [t["id"] for t in stalls]
    if stalls:
        # the bubble cannot see through a goroutine blocked on a mutex: re-execute the same
        # schedule outside a bubble, then release everything; a hang there is a verdict
        redo = []
        for t in stalls[:12]:
            c = dict(by_id[t["id"]], mode="timed", schedule=t.get("schedule") or [], id=t["id"] + "-timed")
            redo.append(c)
            by_id[c["id"]] = c
        traces += [t for t in vlib.run_harness(binary, "TestVerifModLoad", redo, wd, tag="-redo") if not t.get("stall")]
    for t in traces:
        if t["id"] not in by_id:
            by_id[t["id"]] = dict(by_id[t["id"].split(".")[0]], id=t["id"], seed=t.get("seed"), reps=1)
    res["n_traces"] = len(traces)
    res["modes"] = {}
    for t in traces:
        res["modes"][t["mode"]] = res["modes"].get(t["mode"], 0) + 1
    res["events"] = sum(len(t["events"]) for t in traces)
    res["script_diverged"] = sum(1 for t in traces if t["mode"] == "script" and t.get("diverged", -1) >= 0)
    viols, n = vlib.eval_traces(SPEC, "ModLoadTraceP", "ModLoadTraceP.cfg", [to_p_line(t) for t in traces], shards=8)
    tr_by_id = {t["id"]: t for t in traces}
    out = []
    for v in viols:
        t = tr_by_id[v["id"]]
        for x in v["viol"]:
            out.append({"prop": x["prop"], "what": x["what"], "m": x.get("m", ""), "at": x.get("at"), "id": v["id"],
                        "case": by_id.get(v["id"]), "mode": t["mode"],
                        "detail": [e for e in t["events"] if e["ev"] in ("LoadDone", "Hang", "Deadlock")][:2]})
    for t in crashes:
        out.append({"prop": "C06", "what": "the process was killed by the Go runtime inside the loader: " + t["crash"], "m": "", "at": 0,
                    "id": t["id"], "case": None, "mode": "crash", "detail": []})
    res["violations"] = out
    ctl = [t for t in traces if t["mode"] in ("script", "random", "pct") and t.get("steps") and not t.get("bounded")]
    sample = ctl if tier != "quick" else ctl[:: max(1, len(ctl) // 400)]
    dl = [{"id": t["id"], "cfg": t["cfg"], "steps": t["steps"], "events": to_p_line(t)["events"]} for t in sample]
    res["drift_checked"] = len(dl)
    try:
        cfgtxt = "SPECIFICATION TSpec\nCONSTANTS\n  Cfgs = {}\n  Walk = \"%s\"\n  EnvFail = \"%s\"\nINVARIANTS Done DInvariants\nCHECK_DEADLOCK FALSE\n" % (WALK, ENVFAIL)
        open(os.path.join(wd, "ModLoadTraceD.cfg"), "w").write(cfgtxt)
        dv = vlib.eval_drift(SPEC, "ModLoadTraceD", os.path.join(wd, "ModLoadTraceD.cfg"), dl)
        res["drift_count"], res["drift"] = len(dv), dv[:10]
    except Inconclusive as e:
        res["drift_error"] = str(e)[:600]
    res["distinct_schedules"] = len({(json.dumps(t["cfg"], sort_keys=True), tuple(t.get("schedule") or ())) for t in ctl})
    res["samples"] = [{"id": t["id"], "cfg": t["cfg"], "mode": t["mode"], "schedule": (t.get("schedule") or [])[:30],
                       "events": to_p_line(t)["events"][:10]} for t in traces[:1] + traces[-1:]]
    res["wall_s"] = time.time() - t0
    return res


def sig_of(v):
    return "%s|%s" % (v["prop"], v["what"])


def check(prop, tier):
    t0 = time.time()
    res = vlib.FamilyRun("modload", tier).get(lambda: pipeline(tier))
    if not res["design"]["ok"]:
        raise Inconclusive("TLC rejects the design spec ModLoad (x) ModLoadMon (walk=%s): %s" % (res["walk"], res["design"]["errors"]))
    viols = [dict(v, sig=sig_of(v)) for v in res["violations"] if v["prop"] == prop]
    cov = {
        "states": res["design"]["distinct"], "transitions": res["design"]["generated"],
        "traces_validated_against_impl": res["n_traces"], "samples": res["samples"],
        "design_configs": res["design"]["configs"], "design_walk_variant": res["walk"],
        "real_executions_by_mode": res["modes"], "events_evaluated_by_monitor": res["events"],
        "distinct_controlled_schedules": res["distinct_schedules"],
        "tlc_scripted_schedules_diverged": res["script_diverged"],
        "traces_validated_against_design_spec": res["drift_checked"], "design_drift": res.get("drift_count", 0),
        "design_drift_samples": res.get("drift", [])[:3],
        "stalled_controlled_cases_reexecuted_timed": res["stalls"], "exhaustive": False,
        "rule": "distinct = distinct (load graph, released-thread sequence) among controlled executions of the real dawn.Load on generated project trees",
        "family_wall_s": round(res["wall_s"], 1),
    }
    if res.get("drift_error"):
        cov["design_drift_error"] = res["drift_error"]
    if res.get("drift_count"):
        print("DRIFT: %d controlled traces are not behaviours of specs/modload/ModLoad.tla (diagnostic only)" % res["drift_count"])
    assumptions = ["Go's sync and testing/synctest are trusted", "the Starlark interpreter executes load() statements in order",
                   "a goroutine blocked on a mutex is invisible to synctest: such schedules are re-executed outside a bubble with wall-clock quiescence"]
    return vlib.conclude(prop, tier, "model_checking", cov, t0, viols, assumptions,
                         lambda v: {"family": "modload", "property": prop, "case": v["case"],
                                    "violation": {k: v[k] for k in ("prop", "what", "m", "at", "id", "mode", "detail")}})


def replay(prop, path):
    """Re-executes the recorded case on the real code and re-evaluates it with the monitor."""
    with open(path) as f:
        r = json.load(f)
    case = r.get("case")
    if not case:
        raise Inconclusive("replay file has no case")
    wd = vlib.scratch("replay-")
    binary = vlib.build_test("", wd, name="dawn")
    traces = vlib.run_harness(binary, "TestVerifModLoad", [case], wd)
    traces = [t for t in traces if not t.get("stall")]
    viols, n = vlib.eval_traces(SPEC, "ModLoadTraceP", "ModLoadTraceP.cfg", [to_p_line(t) for t in traces], shards=1)
    got = [(x["prop"], x["what"]) for v in viols for x in v["viol"]]
    print("replayed %d execution(s); monitor reports: %s" % (len(traces), got or "no violation"))
    want = (r["violation"]["prop"], r["violation"]["what"])
    if want in got:
        print("VIOLATION property=%s replay=%s" % (prop, path))
        return 1
    print("the recorded violation did not reproduce (schedule-dependent cases may need several runs)")
    return 0
