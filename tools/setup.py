#!/usr/bin/env python3
"""setup_cmd: warms the Go build cache by building every overlay harness once and parses
every TLA+ module with SANY. Builds from files on disk only; offline."""
import os, subprocess, sys
sys.path.insert(0, os.path.dirname(os.path.abspath(__file__)))
import vlib
rc = 0
wd = vlib.scratch("setup-")
ovdir = os.path.join(vlib.VERIF, "harness", "overlay")
pkgs = sorted(os.path.relpath(dp, ovdir) for dp, dns, fns in os.walk(ovdir) if any(f.endswith(".go") for f in fns))
for pkg in pkgs:
    p = "" if pkg == "root" else pkg
    try:
        vlib.build_test(p, wd)
        print("built harness for package %r" % (p or "."))
    except vlib.Inconclusive as e:
        print("WARNING:", e)
        rc = 1
vlib.cleanup()
sys.exit(rc)
