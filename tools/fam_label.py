"""Label family (C12): LabelGrammar.tla is the reference grammar (Parse, print, Clean, Join,
RelativeTo) and TLC checks on every string of the scope that the grammar round-trips;
the real label.Parse/String/RelativeTo run on every string over the label alphabet up to
the bound (plus seeded longer ones) and repoSourcePath/sourceLabel on every (package, path)
pair built from {a, .., ., empty} components; every call is evaluated by LabelMon."""
import json
import os
import time

import vlib
from vlib import Inconclusive

SPEC = os.path.join(vlib.VERIF, "specs", "label")


def pipeline(tier):
    t0 = time.time()
    quick = tier == "quick"
    wd = vlib.scratch("label-")
    res = {"family": "label", "tier": tier, "seed": vlib.seed()}
    cfg = "SPECIFICATION Spec\nCONSTANT MaxLen = %d\nINVARIANT GrammarOK\nCHECK_DEADLOCK FALSE\n" % (5 if quick else 6)
    rc, out, _ = vlib.tlc(SPEC, "LabelMC", cfg="run.cfg", workers=16, timeout=2400, heap="8g", files={"run.cfg": cfg})
    gen, dist = vlib.tlc_stats(out)
    res["design"] = {"ok": "No error has been found" in out, "distinct": dist, "generated": gen, "errors": vlib.tlc_error(out)[:3]}
    b1 = vlib.build_test("label", wd)
    b2 = vlib.build_test("", wd, name="dawn")
    opath = os.path.join(wd, "traces.ndjson")
    env = dict(os.environ, VERIF_OUT=opath, VERIF_SEED=str(vlib.seed()), VERIF_LABEL_LEN="5" if quick else "6",
               VERIF_LABEL_RANDOM="3000" if quick else "50000")
    for b, tname in ((b1, "TestVerifLabel"), (b2, "TestVerifSrcPath")):
        p = vlib.run_cmd([b, "-test.run", "^%s$" % tname, "-test.timeout", "3000s"], env=env, cwd=wd)
        if p.returncode != 0:
            raise Inconclusive("label harness %s failed (exit %d):\n%s" % (tname, p.returncode, p.stdout[-3000:]))
    lines = [json.loads(l) for l in open(opath)]
    res["calls"] = {}
    for l in lines:
        for e in l["events"]:
            res["calls"][e["ev"]] = res["calls"].get(e["ev"], 0) + 1
    by_id = {l["id"]: l for l in lines}
    # evaluate; collect drift too
    viols, n = vlib.eval_traces(SPEC, "LabelTraceP", "LabelTraceP.cfg", lines, shards=14, timeout=3000)
    out = []
    for v in viols:
        for x in v["viol"]:
            out.append({"prop": "C12", "what": x["what"], "x": x.get("x"), "id": v["id"]})
    res["violations"] = out
    res["samples"] = [lines[len(lines) // 3]["events"][5], lines[-1]["events"][0]]
    res["distinct_strings"] = res["calls"].get("Parse", 0)
    res["wall_s"] = time.time() - t0
    return res


def sig_of(v):
    return "C12|%s" % v["what"]


def check(prop, tier):
    t0 = time.time()
    res = vlib.FamilyRun("label", tier).get(lambda: pipeline(tier))
    if not res["design"]["ok"]:
        raise Inconclusive("TLC: the reference grammar LabelGrammar.tla does not round-trip: %s" % res["design"]["errors"])
    viols = [dict(v, sig=sig_of(v)) for v in res["violations"]]
    n = sum(res["calls"].values())
    cov = {"states": res["design"]["distinct"], "transitions": res["design"]["generated"],
           "traces_validated_against_impl": n, "samples": res["samples"], "real_calls": res["calls"],
           "evaluations": n, "distinct_nontrivial": res["distinct_strings"] + res["calls"].get("SrcPath", 0), "exhaustive": True,
           "rule": "every string over {a b / : . @} up to length 5 (quick) / 6 (thorough) parsed, printed, re-parsed and resolved against //, //a, //a/b; seeded longer strings; every (package, path) with up to 4 components from {a .. . empty b} in relative, /-absolute, //-absolute and trailing-slash forms; distinct = distinct input strings / pairs",
           "family_wall_s": round(res["wall_s"], 1)}
    assumptions = ["the project root is a directory without symbolic links below it (confinement is lexical)"]
    return vlib.conclude(prop, tier, "model_checking", cov, t0, viols, assumptions,
                         lambda v: {"family": "label", "property": prop, "violation": v})
