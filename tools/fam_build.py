"""Build family (C01 C02 C03 C13 C14 and the event protocol of C18): TLC checks Build.tla (x)
BuildMon over project shapes and bounded histories (edits, partial/dry/always builds,
collections, failing bodies, a process death between any two persistent effects); TLC
generates histories that are replayed on the real dawn (fresh Load + Run per step, crashing
builds in a child process) together with harness-driven histories (atom-kind rotation,
systematic crash-point enumeration, random); every real history is evaluated by the TLA+
monitor; the executed sets Build.tla predicts are compared with the real ones (drift)."""
import json
import os
import random
import time
from concurrent.futures import ThreadPoolExecutor

import vlib
from vlib import Inconclusive

SPEC = os.path.join(vlib.VERIF, "specs", "build")
# which stamping design Build.tla models: "runs" after the repair of the partial-build
# staleness (DESIGN.md section 6, defect 1), "env" before it
STAMP = os.environ.get("VERIF_BUILD_STAMP", "runs")


def T(deps=(), srcs=(), gens=(), always=False, pkg="", kind="", alt=()):
    d = {"deps": list(deps), "srcs": list(srcs), "gens": list(gens), "always": always}
    if alt:
        d["alt"] = list(alt)
    if pkg:
        d["pkg"] = pkg
    if kind:
        d["kind"] = kind
    return d


SHAPES = {
    "chain": {"targets": {"T1": T(srcs=["s1"]), "T2": T(deps=["T1"])}, "sources": ["s1"]},
    "chain3": {"targets": {"T1": T(srcs=["s1"]), "T2": T(deps=["T1"]), "T3": T(deps=["T2"]), "T4": T(srcs=["s2"], pkg="other")},
               "sources": ["s1", "s2"]},
    "diamond": {"targets": {"A": T(srcs=["s1"]), "B": T(deps=["A"]), "C": T(deps=["A"], srcs=["s2"]), "D": T(deps=["B", "C"])},
                "sources": ["s1", "s2"]},
    "generated": {"targets": {"T1": T(srcs=["s1"], gens=["g1"]), "T2": T(srcs=["g1"]), "T3": T(deps=["T2"])}, "sources": ["s1", "g1"]},
    "twopkg": {"targets": {"T1": T(srcs=["s1"], pkg="p1"), "T2": T(deps=["T1"], pkg="p2"), "T3": T(srcs=["s2"], pkg="p3")},
               "sources": ["s1", "s2"]},
    "srcdir": {"targets": {"T1": T(srcs=["d1"]), "T2": T(deps=["T1"])}, "sources": ["d1"], "dirs": ["d1"]},
    "always": {"targets": {"T1": T(always=True), "T2": T(deps=["T1"]), "T3": T(srcs=["s1"])}, "sources": ["s1"]},
    "alwaysoff": {"targets": {"T1": T(always=True), "T2": T(deps=["T1"]), "T3": T(srcs=["s1"])}, "sources": ["s1"]},
    "grow": {"targets": {"T1": T(srcs=["s1"]), "T2": T(deps=["T1"])}, "sources": ["s1"]},
    # nested packages (a and a/b) and a generated file consumed in another package
    "nestedpkg": {"targets": {"T1": T(srcs=["s1"], gens=["g1"], pkg="a"), "T2": T(deps=["T1"], srcs=["g1"], pkg="a/b"), "T3": T(deps=["T2"])},
                  "sources": ["s1", "g1"]},
    # dependency edges are rewired (see RESHAPE): T3 moves from T2 to T1
    "rewire": {"targets": {"T1": T(srcs=["s1"]), "T2": T(srcs=["s2"]), "T3": T(deps=["T2"])}, "sources": ["s1", "s2"]},
    # a generator whose dependent reaches it through deps, not through the generated file
    "gendep": {"targets": {"T1": T(srcs=["s1"], gens=["g1"]), "T2": T(deps=["T1"]), "T3": T(deps=["T2"], srcs=["g1"])}, "sources": ["s1", "g1"]},
    # names with characters that are special in URLs and file names
    "plus": {"targets": {"T1": T(srcs=["a+b"], pkg="c++"), "T2": T(deps=["T1"], srcs=["x y"], pkg="p q"), "T3": T(deps=["T2"])}, "sources": ["a+b", "x y"]},
    # an edge is added (see RESHAPE): T3 also depends on T1
    "addedge": {"targets": {"T1": T(srcs=["s1"]), "T2": T(srcs=["s2"]), "T3": T(deps=["T2"])}, "sources": ["s1", "s2"]},
    # an edge disappears (see RESHAPE): T2 no longer depends on T1
    "unwire": {"targets": {"T1": T(srcs=["s1"]), "T2": T(deps=["T1"], srcs=["s2"])}, "sources": ["s1", "s2"]},
    # names that are string prefixes of one another; T1 and source r go away (see RESHAPE)
    "prefix": {"targets": {"T1": T(srcs=["r"]), "T1x": T(srcs=["r.txt.x"]), "T2": T(deps=["T1x", "T1"])}, "sources": ["r", "r.txt.x"]},
    # a failing target next to an independent branch that becomes ready later
    "twobranch": {"targets": {"F": T(srcs=["s1"]), "A": T(srcs=["s2"]), "C": T(deps=["A"]), "D": T(deps=["F", "C"])}, "sources": ["s1", "s2"]},
    # one dependency written with two spellings of its label by two dependents
    "altlabel": {"targets": {"A": T(srcs=["s1"], pkg="lib"), "B": T(deps=["A"]), "C": T(deps=["A"], alt=["A"]), "D": T(deps=["B", "C"])}, "sources": ["s1"]},
}
# shapes whose builds fail by construction (missing / cyclic dependencies): only the event protocol
# is of interest there
FAILING_SHAPES = {
    "missing": {"targets": {"T1": T(deps=["X1", "X2"], srcs=["s1"]), "T2": T(deps=["T1", "X3"]), "T3": T(deps=["T2"])}, "sources": ["s1"]},
    "cycle2": {"targets": {"R": T(deps=["A", "C"]), "A": T(deps=["B"]), "B": T(deps=["A", "C"]), "C": T(srcs=["s1"])}, "sources": ["s1"]},
    "selfdep": {"targets": {"R": T(deps=["A"]), "A": T(deps=["A", "X1"])}, "sources": []},
}
RESHAPE = {
    # a project that grows (watch mode: edit, Reload) and one whose always-target stops being one
    "grow": {"targets": {"T1": T(srcs=["s1"]), "T2": T(deps=["T1"]), "T3": T(deps=["T2"], srcs=["s2"])}, "sources": ["s1", "s2"]},
    "alwaysoff": {"targets": {"T1": T(), "T2": T(deps=["T1"]), "T3": T(srcs=["s1"])}, "sources": ["s1"]},
    "chain3": {"targets": {"T1": T(srcs=["s1"]), "T2": T(deps=["T1"])}, "sources": ["s1"]},
    "rewire": {"targets": {"T1": T(srcs=["s1"]), "T2": T(srcs=["s2"]), "T3": T(deps=["T1"])}, "sources": ["s1", "s2"]},
    "unwire": {"targets": {"T1": T(srcs=["s1"]), "T2": T(deps=[], srcs=["s2"])}, "sources": ["s1", "s2"]},
    "addedge": {"targets": {"T1": T(srcs=["s1"]), "T2": T(srcs=["s2"]), "T3": T(deps=["T2", "T1"])}, "sources": ["s1", "s2"]},
    "prefix": {"targets": {"T1x": T(srcs=["r.txt.x"]), "T2": T(deps=["T1x"])}, "sources": ["r.txt.x"]}}


def mon_shape(s):
    return {"targets": {n: {k: t[k] for k in ("deps", "srcs", "gens", "always")} for n, t in s["targets"].items()}, "sources": s["sources"]}


def tla_seq(xs):
    return "<<" + ", ".join('"%s"' % x for x in xs) + ">>"


def shape_to_tla(s):
    ts = ", ".join("%s |-> [deps |-> %s, srcs |-> %s, gens |-> %s, always |-> %s]" % (
        n, tla_seq(t["deps"]), tla_seq(t["srcs"]), tla_seq(t["gens"]), "TRUE" if t["always"] else "FALSE")
        for n, t in sorted(s["targets"].items()))
    return "[targets |-> [%s], sources |-> %s]" % (ts, tla_seq(s["sources"]))


# which variant of runTarget.Evaluate the design spec models: "started" after the repair that records
# "being run" before the body (defect 24), "none" before it
MARK = os.environ.get("VERIF_BUILD_MARK", "started")


def cfg_to_tla(name, stamp):
    c = "[shape |-> %s, stamp |-> \"%s\", mark |-> \"%s\"" % (shape_to_tla(SHAPES[name]), stamp, MARK)
    if name in RESHAPE:
        c += ", shape2 |-> %s" % shape_to_tla(RESHAPE[name])
    return c + "]"


DESIGN_BOUNDS = {
    "quick": [(["chain"], dict(MaxEdits=2, MaxBuilds=3, MaxCrashes=1, MaxFails=1, MaxGCs=0)),
              (["generated"], dict(MaxEdits=2, MaxBuilds=2, MaxCrashes=1, MaxFails=1, MaxGCs=1))],
    "thorough": [(["chain", "generated", "always"], dict(MaxEdits=2, MaxBuilds=3, MaxCrashes=1, MaxFails=1, MaxGCs=1)),
                 (["diamond", "chain3"], dict(MaxEdits=2, MaxBuilds=2, MaxCrashes=1, MaxFails=1, MaxGCs=1))],
}


def design_check(tier, stamp):
    tot_gen = tot_dist = 0
    runs = []

    def one(args):
        names, bounds = args
        body = "---- MODULE MCBuildGen ----\nEXTENDS Build\nMCCfgs == {\n  " + ",\n  ".join(cfg_to_tla(n, stamp) for n in names) + "\n}\n====\n"
        cfgtxt = "SPECIFICATION Spec\nCONSTANTS\n  Cfgs <- MCCfgs\n" + "".join("  %s = %d\n" % kv for kv in bounds.items()) + \
                 "INVARIANTS NoViolation TempsOK\nVIEW View\nCHECK_DEADLOCK FALSE\n"
        rc, out, wd = vlib.tlc(SPEC, "MCBuildGen", cfg="MCBuildGen.cfg", workers=8, timeout=3000, heap="12g",
                               files={"MCBuildGen.tla": body, "MCBuildGen.cfg": cfgtxt})
        gen, dist = vlib.tlc_stats(out)
        ok = "Model checking completed. No error has been found." in out
        return {"shapes": names, "bounds": bounds, "ok": ok, "generated": gen, "distinct": dist, "errors": vlib.tlc_error(out)[:3]}

    def line_mc(_):
        cfgtxt = ("SPECIFICATION Spec\nCONSTANTS\n  Texts <- MCTexts\n  Rounds = 2\n  ResetOnFlush = TRUE\n  MaxLen = %d\n"
                  "INVARIANTS Faithful Prefix\nCHECK_DEADLOCK FALSE\n" % (3 if tier == "quick" else 4))
        rc, out, wd = vlib.tlc(SPEC, "LineMC", cfg="LineRun.cfg", workers=4, timeout=2400, heap="6g", files={"LineRun.cfg": cfgtxt})
        gen, dist = vlib.tlc_stats(out)
        return {"shapes": ["line writer: all chunkings x 2 rounds"], "bounds": {}, "ok": "No error has been found" in out,
                "generated": gen, "distinct": dist, "errors": vlib.tlc_error(out)[:3]}

    def line_par(_):
        # two goroutines writing to one line writer: exactly-once delivery holds with the lock and
        # the same check rejects the writer without it (defect 32)
        cfg = "SPECIFICATION Spec\nCONSTANTS\n  Locked = %s\n  LinesPer = %d\nINVARIANT ExactlyOnce\nCHECK_DEADLOCK FALSE\n"
        rc, out, wd = vlib.tlc(SPEC, "LineWriterPar", cfg="LWP.cfg", workers=4, timeout=900, heap="4g", files={"LWP.cfg": cfg % ("TRUE", 3 if tier == "quick" else 5)})
        gen, dist = vlib.tlc_stats(out)
        rc2, out2, wd2 = vlib.tlc(SPEC, "LineWriterPar", cfg="LWP.cfg", workers=4, timeout=900, heap="4g", files={"LWP.cfg": cfg % ("FALSE", 2)})
        bad = "Invariant ExactlyOnce is violated" in out2
        return {"shapes": ["line writer: two concurrent writers"], "bounds": {}, "ok": "No error has been found" in out and bad,
                "generated": gen, "distinct": dist, "errors": vlib.tlc_error(out)[:3] + ([] if bad else ["the writer without a lock was not rejected"])}

    def watch_mc(_):
        # watch mode's debouncer / builder: no lost update, no spurious build, settles; and the
        # tempting simplification (dirty cleared on every tick) must be rejected by the same check
        spec = os.path.join(vlib.VERIF, "specs", "watch")
        cfg = ("SPECIFICATION Spec\nCONSTANTS\n  MaxEdits = %d\n  MaxSelfWrites = 2\n  Handoff = \"%s\"\n"
               "INVARIANTS TypeOK NoLostUpdate NoSpuriousBuild\nPROPERTY Settles\nCHECK_DEADLOCK FALSE\n")
        rc, out, wd = vlib.tlc(spec, "Watch", cfg="run.cfg", workers=4, timeout=1200, heap="4g", files={"run.cfg": cfg % (3 if tier == "quick" else 5, "clear")})
        gen, dist = vlib.tlc_stats(out)
        rc2, out2, wd2 = vlib.tlc(spec, "Watch", cfg="run.cfg", workers=4, timeout=1200, heap="4g", files={"run.cfg": cfg % (3, "always")})
        ok = "No error has been found" in out and "Invariant NoLostUpdate is violated" in out2
        return {"shapes": ["watch mode: debouncer and builder"], "bounds": {}, "ok": ok, "generated": gen, "distinct": dist,
                "errors": vlib.tlc_error(out)[:3] + ([] if "NoLostUpdate is violated" in out2 else ["the lossy hand-off variant was not rejected"])}

    with ThreadPoolExecutor(max_workers=3) as ex:
        fl = ex.submit(line_mc, None)
        fw = ex.submit(watch_mc, None)
        fp_ = ex.submit(line_par, None)
        runs = list(ex.map(one, DESIGN_BOUNDS[tier]))
        runs.append(fl.result())
        runs.append(fw.result())
        runs.append(fp_.result())
    return {"ok": all(r["ok"] for r in runs), "generated": sum(r["generated"] for r in runs), "distinct": sum(r["distinct"] for r in runs),
            "runs": runs, "stamp": stamp, "errors": [e for r in runs for e in r["errors"]][:4]}


def gen_histories(names, stamp, num, sd, bounds):
    body = "---- MODULE MCGen ----\nEXTENDS BuildGen\nGenCfgs == {\n  " + ",\n  ".join(cfg_to_tla(n, stamp) for n in names) + "\n}\n====\n"
    cfgtxt = "SPECIFICATION GenSpec\nCONSTANTS\n  Cfgs <- GenCfgs\n" + "".join("  %s = %d\n" % kv for kv in bounds.items()) + "CHECK_DEADLOCK FALSE\n"
    rc, out, wd = vlib.tlc(SPEC, "MCGen", cfg="MCGen.cfg", workers=1, timeout=900, heap="4g",
                           files={"MCGen.tla": body, "MCGen.cfg": cfgtxt},
                           args=["-simulate", "num=%d" % num, "-depth", "250", "-seed", str(sd), "-deadlock"])
    hs = [h for h in vlib.tlc_prints(out, "HIST") if isinstance(h, dict)]
    if not hs:
        raise Inconclusive("TLC generated no build histories:\n" + out[-2000:])
    return hs


def shape_name_of(monshape):
    key = json.dumps(monshape, sort_keys=True)
    for n, s in SHAPES.items():
        if json.dumps(mon_shape(s), sort_keys=True) == key:
            return n
    return None


def crash_spec(shape, h):
    """Maps a Crash position of Build.tla to a crash hook of the real code."""
    cur, pc, visited = h.get("cur", ""), h.get("pc", ""), list(h.get("visited") or [])
    isfun = cur in shape["targets"]
    if cur == "":
        if not visited:
            return {"point": "index.created", "label": "", "hit": 1}, True
        # a maximal visited node: one that no other visited node is a dependency of ... approximate by last in a topological sense
        def deps_of(n):
            t = shape["targets"].get(n)
            if t:
                return set(t["deps"]) | set(t["srcs"])
            return {g for g, tt in shape["targets"].items() if n in tt["gens"]}
        maximal = [v for v in visited if not any(v in deps_of(u) for u in visited)]
        v = sorted(maximal)[0] if maximal else sorted(visited)[0]
        return {"point": "eval.saved", "label": v, "hit": 1}, len(maximal) == 1
    if pc == "body":
        return {"point": "eval.before", "label": cur, "hit": 1}, True
    if pc in ("save1", "fsave1"):
        return {"point": "eval.after", "label": cur, "hit": 1}, True
    return {"point": "save.closed", "label": cur, "hit": 2 if isfun else 1}, True


def history_to_case(idx, h, rnd):
    name = shape_name_of(h["cfg"]["shape"])
    if name is None:
        return None
    shape = SHAPES[name]
    steps, expect, exact = [], [], True
    x = list(h["x"])
    ops = list(h["h"])
    bi = 0
    i = 0
    cur_shape = shape
    while i < len(ops):
        o = ops[i]
        if o["op"] == "edit_env":
            steps.append({"op": "edit_env", "t": o["t"]})
        elif o["op"] == "edit_src":
            steps.append({"op": "edit_src", "s": o["s"]})
        elif o["op"] == "revert_env":
            steps.append({"op": "revert_env", "t": o["t"]})
        elif o["op"] == "revert_src":
            steps.append({"op": "revert_src", "s": o["s"]})
        elif o["op"] == "delete":
            steps.append({"op": "delete", "s": o["s"]})
        elif o["op"] == "nonedit":
            steps.append({"op": "nonedit", "kind": rnd.choice(["touch", "rewrite", "comment"])})
        elif o["op"] == "reshape":
            steps.append({"op": "reshape"})
            cur_shape = RESHAPE[name]
        elif o["op"] == "build":
            st = {"op": "build", "root": o["root"], "mode": o["mode"], "gc": bool(o.get("gc")), "clean": o["mode"] != "dry"}
            xe = x[bi] if bi < len(x) else None
            bi += 1
            if xe and xe.get("failed"):
                st["fail"] = list(xe["failed"])
            if i + 1 < len(ops) and ops[i + 1]["op"] == "crash":
                cs, ok = crash_spec(cur_shape, ops[i + 1])
                st["crash"] = cs
                st["clean"] = False
                exact = exact and ok
                i += 1
            steps.append(st)
            expect.append(xe)
        i += 1
    # one package per target: an edit then touches exactly one target's build file, as in Build.tla
    shape = json.loads(json.dumps(shape))
    for n, t in shape["targets"].items():
        t["pkg"] = "pk" + n.lower()
    c = {"id": "tlc-%d" % idx, "shape": shape, "steps": steps, "seed": rnd.randrange(1 << 30), "expect": expect, "exact": exact,
         "values": rnd.choice(["", "", "int16", "str", "tuple"])}
    if name in RESHAPE:
        c["shape2"] = json.loads(json.dumps(RESHAPE[name]))
        for n, t in c["shape2"]["targets"].items():
            t["pkg"] = "pk" + n.lower()
    return c


POINTS = ["eval.before", "body.begin", "body.mid", "eval.after", "save.mkdir", "save.created", "save.encoded", "save.closed", "eval.saved", "index.created"]


def B(root, mode="real", **kw):
    d = {"op": "build", "root": root, "mode": mode, "clean": mode != "dry"}
    d.update(kw)
    return d


def roots_of(shape):
    deps = {d for t in shape["targets"].values() for d in t["deps"]}
    # the generator of a consumed source is a dependency of the consumer as well
    used = {s for t in shape["targets"].values() for s in t["srcs"]}
    deps |= {n for n, t in shape["targets"].items() if set(t["gens"]) & used}
    return sorted(n for n in shape["targets"] if n not in deps)


def harness_cases(tier, sd):
    rnd = random.Random(sd * 65537 + 11)
    quick = tier == "quick"
    cases = []

    def add(prefix, shape_name, steps, **kw):
        c = {"id": "%s-%d" % (prefix, len(cases)), "shape": SHAPES[shape_name], "steps": steps, "seed": rnd.randrange(1 << 30)}
        if shape_name in RESHAPE:
            c["shape2"] = RESHAPE[shape_name]
        c.update(kw)
        cases.append(c)

    # (a) atom kinds x value classes: every edit of a referenced value must re-execute
    kinds = ["", "const", "default", "closure", "helper", "nested", "module", "modfn", "recursive", "flag", "stdlib"]
    classes = ["", "int16", "int32", "str", "tuple", "dict", "float", "intfloat", "dictorder", "zeropair"]
    for k in kinds:
        for v in classes:
            if quick and k != "flag" and (kinds.index(k) + classes.index(v)) % 3 != sd % 3 and not (k == "" or (k == "stdlib" and v == "") or v in ("int16", "intfloat", "dictorder", "zeropair")):
                continue
            shape = json.loads(json.dumps(SHAPES["chain"]))
            if k == "flag":
                # the value comes from the command line; one flag per project (see DESIGN.md section 6)
                if v:
                    continue
                shape["targets"]["T1"]["kind"] = k
            else:
                for t in shape["targets"].values():
                    t["kind"] = k
            steps = [B("T2")]
            for _ in range(4):
                steps += [{"op": "edit_env", "t": "T1"}, B("T2")]
            steps += [{"op": "edit_env", "t": "T2"}, B("T2"), B("T2")]
            c = {"id": "atom-%s-%s-%d" % (k or "global", v or "small", len(cases)), "shape": shape, "steps": steps, "seed": 0, "values": v}
            cases.append(c)
    # (b) partial builds, non-edits, dry runs, collections on every shape
    for name, shape in SHAPES.items():
        rs = roots_of(shape)
        top = rs[0]
        inner = sorted(n for n in shape["targets"] if n not in rs) or rs
        srcs = [s for s in shape["sources"] if not any(s in t["gens"] for t in shape["targets"].values())]
        gens = [s for s in shape["sources"] if s not in srcs]
        s0 = srcs[0] if srcs else None
        es = ({"op": "edit_src", "s": s0} if s0 else {"op": "edit_env", "t": inner[0]})
        add("part", name, [B(top), es, B(inner[0]), B(top), B(top)])
        add("part", name, [B(top), {"op": "edit_env", "t": inner[0]}, B(inner[0]), B(top)])
        add("part", name, [B(top), B(inner[0], "always"), B(top), B(top)])
        add("non", name, [B(top), {"op": "nonedit", "kind": "touch"}, B(top), {"op": "nonedit", "kind": "rewrite"}, B(top),
                          {"op": "nonedit", "kind": "comment"}, B(top), B(top)])
        add("dry", name, [B(top), es, B(top, "dry"), B(top), B(top, "dry"), B(top)], twin="dry")
        add("dry", name, [B(top), es, B(top, "dry"), B(top, fail=[inner[0]]), B(top, "dry"), B(top)])
        # a transient fault (sources directory unreadable) during a dry run must leave no trace
        fk = "src" if srcs else None
        if fk:
            add("dryf", name, [B(top), {"op": "fault", "kind": fk}, B(top, "dry"), {"op": "unfault", "kind": fk}, B(top), B(top)], twin="dry")
            add("dryf", name, [B(top), es, {"op": "fault", "kind": fk}, B(top, "dry"), {"op": "unfault", "kind": fk}, B(top)], twin="dry")
        if gens:
            add("dryf", name, [B(top), {"op": "fault", "kind": "gen"}, B(top, "dry"), {"op": "unfault", "kind": "gen"}, B(top), B(top)], twin="dry")
        # an edit is looked at by a dry run and then taken back: every input is what it was at the last
        # successful execution, nothing runs
        if s0 and not shape.get("dirs"):
            add("dryu", name, [B(top), es, B(top, "dry"), {"op": "revert_src", "s": s0}, B(top), B(top)], twin="dry")
        add("dryu", name, [B(top), {"op": "edit_env", "t": inner[0]}, B(top, "dry"), {"op": "revert_env", "t": inner[0]}, B(top), B(top)], twin="dry")
        add("gc", name, [B(top), B(top, gc=True), es, B(top, gc=True), B(top)], twin="gc")
        add("gc", name, [B(top), B(top, gc=True, index=True), es, B(top), B(top)], twin="gc")
        add("fail", name, [B(top), es, B(top, fail=[inner[0]]), B(top), B(top)])
        # the failing body also removed the directory dawn stages its records in: still one failure
        add("fail", name, [B(top), es, dict(B(top, fail=[inner[0]], wreck=True), clean=False), B(top), B(top)])
        add("fail", name, [dict(B(top, fail=[top], wreck=True), clean=False), B(top), B(top)])
        if s0 and not shape.get("dirs"):
            # a source file is away while a collection runs and comes back unchanged
            add("gc", name, [B(top), {"op": "delete", "s": s0}, dict(B(top, gc=True), clean=False), {"op": "restore", "s": s0}, B(top), B(top)], twin="gc")
            add("gc", name, [B(top), {"op": "delete", "s": s0}, dict(B(top, gc=True, index=True), clean=False), {"op": "restore", "s": s0}, B(top)], twin="gc")
            # a declared source that does not exist is an input like any other: its absence is
            # recorded, and an unchanged tree without it builds nothing
            add("miss", name, [B(top), {"op": "delete", "s": s0}, dict(B(top), clean=False), dict(B(top), clean=False), dict(B(top, "dry"), clean=False),
                               {"op": "restore", "s": s0}, B(top), B(top)])
            add("miss", name, [{"op": "delete", "s": s0}, dict(B(top), clean=False), dict(B(top), clean=False), {"op": "nonedit", "kind": "comment"}, dict(B(top), clean=False)])
        add("fail", name, [B(top, fail=[inner[0]]), B(inner[0]), B(top)])
        # the edit that made a target fail is undone: its last attempt still failed
        add("fail", name, [B(top), {"op": "edit_env", "t": inner[0]}, B(top, fail=[inner[0]]), {"op": "revert_env", "t": inner[0]}, B(top), B(top)])
        add("fail", name, [B(top), {"op": "edit_env", "t": top}, B(top, fail=[top]), {"op": "revert_env", "t": top}, B(top), B(top)])
        # a failure, then the failed target alone succeeds, then everything: its dependents must notice
        add("fail", name, [B(top), es, B(top, fail=[inner[0]]), B(inner[0]), B(top), B(top)])
        add("fail", name, [B(top), es, B(top, fail=[inner[0]]), es, B(inner[0]), B(top), B(top)])
        # the same protocol as seen by the callback of the run() builtin (a REPL session)
        R = lambda *a, **k: B(*a, via="repl", **k)
        add("repl", name, [R(top), es, R(top, "dry"), R(top, fail=[inner[0]]), R(top, "dry"), R(top), R(top)])
        add("repl", name, [B(top), es, R(top, fail=[top]), R(top, "always"), R(top)])
        if name in RESHAPE:
            add("gc", name, [B(top), {"op": "reshape"}, B(roots_of(RESHAPE[name])[0], gc=True), B(roots_of(RESHAPE[name])[0])])
            # a dry run while part of the project is away (BUILD files edited), then the edit is undone:
            # the records of what was away are still there
            r2 = roots_of(RESHAPE[name])[0]
            add("dryr", name, [B(top), {"op": "reshape"}, B(r2, "dry"), {"op": "reshape"}, dict(B(top), clean=False), B(top)], twin="dry")
        for g in gens:
            add("gen", name, [B(top), {"op": "delete", "s": g}, B(top), B(top), {"op": "delete", "s": g}, B(top, "dry"), B(top)])
        if shape.get("dirs"):
            d = shape["dirs"][0]
            for kind in ("rename", "swap", "edit", "hidden", "hidden-nested", "dangling", "renamedir", "movefile", "emptydir"):
                for rep in range(1 if quick else 3):
                    add("dir", name, [B(top), {"op": "edit_src", "s": d, "kind": kind}, B(top), {"op": "edit_src", "s": d, "kind": kind}, B(top)])
        # a dry run followed by a plain run (no options, as watch mode passes) on the same Project
        add("sess", name, [B(top), es, B(top, "dry"), B(top, reuse=True), B(top)])
        add("sess", name, [B(top), B(top, "always"), B(top, "dry", reuse=True), B(top, reuse=True), B(top)])
        # second run on the same Project object (REPL): output must not be re-delivered
        add("rerun", name, [B(top, rerun=True), es, B(top, rerun=True)])
        # REPL session: several runs and source edits on one loaded Project
        if s0:
            others = [n for n in sorted(shape["targets"]) if n != top]
            # (the session's project is loaded after a complete build, so it starts up to date)
            add("sess", name, [B(top), B(top), es, B(inner[0], reuse=True), B(top, reuse=True)])
            add("sess", name, [B(top), B(top), es, B(top, reuse=True, fail=[inner[0]]), B(top, reuse=True), B(top, reuse=True)])
            add("sess", name, [B(top), es, B(inner[0], reuse=True), B(top, reuse=True)])
            # several partial runs in one session, then a fresh process
            add("sess", name, [B(inner[0]), B(top, reuse=True), es, B(inner[0], reuse=True), B(top), B(top)])
            if others:
                add("sess", name, [B(top), B(top), es, B(others[-1], reuse=True), B(top, reuse=True), es, B(top, reuse=True)])
    # watch mode: the project grows, is reloaded in place and built; a later index-preferring
    # collection must know the new targets
    add("watch", "grow", [B("T2"), {"op": "reshape"}, {"op": "reload"}, B("T3", reuse=True), B("T3", gc=True, index=True), B("T3")], twin="gc")
    add("watch", "grow", [B("T2"), {"op": "reshape"}, {"op": "reload"}, B("T3", reuse=True), {"op": "edit_src", "s": "s2"}, {"op": "reload"}, B("T3", reuse=True), B("T3")])
    # a dependency edge moves; afterwards only the new dependency's inputs matter
    add("part", "rewire", [B("T3"), B("T1"), {"op": "reshape"}, B("T3"), {"op": "edit_src", "s": "s1"}, B("T3"), B("T3")])
    add("part", "rewire", [B("T3"), B("T1"), {"op": "reshape"}, B("T3"), {"op": "edit_src", "s": "s2"}, B("T3"), {"op": "edit_src", "s": "s1"}, B("T1"), B("T3")])
    # an edge is added to a target whose new dependency was built after the target last ran
    add("part", "addedge", [B("T3"), B("T1"), {"op": "reshape"}, B("T3"), B("T3")])
    add("part", "addedge", [B("T3"), {"op": "reshape"}, B("T1"), {"op": "edit_src", "s": "s1"}, B("T1"), B("T3"), B("T3")])
    NC = lambda b: dict(b, clean=False)
    # an edge goes away and comes back with everything else unchanged: nothing runs
    add("part", "unwire", [B("T2"), {"op": "reshape"}, NC(B("T2")), {"op": "reshape"}, B("T2"), B("T2")])
    add("part", "addedge", [B("T3"), B("T1"), {"op": "reshape"}, B("T3"), {"op": "reshape"}, NC(B("T3")), {"op": "reshape"}, NC(B("T3")), NC(B("T3"))])
    # an edge is removed from an up-to-date target, then a dry run: nothing may be written
    # (the harness bodies read their declared dependencies' outputs, so a from-scratch build of the
    # unwired tree is not comparable: clean=False)
    add("dry", "unwire", [B("T2"), {"op": "reshape"}, B("T2", "dry"), NC(B("T2")), NC(B("T2"))], twin="dry")
    add("dry", "unwire", [B("T2"), {"op": "reshape"}, B("T2", "dry"), {"op": "edit_src", "s": "s1"}, B("T1"), NC(B("T2"))], twin="dry")
    # a failing target and an independent out-of-date branch: the dry run still predicts the branch
    for rep in range(2 if quick else 6):
        add("dry", "twobranch", [B("D"), {"op": "edit_src", "s": "s1"}, {"op": "edit_src", "s": "s2"}, B("D", "dry"), B("D", fail=["F"]), B("D")])
    # an always-target that stops being one after a dry run
    add("dry", "alwaysoff", [B("T2"), B("T2", "dry"), {"op": "reshape"}, B("T2"), B("T2")], twin="dry")
    add("dry", "alwaysoff", [B("T2"), {"op": "reshape"}, B("T2"), B("T2")])
    # comment / whitespace edits above recursive helpers
    rsh = json.loads(json.dumps(SHAPES["chain"]))
    for t in rsh["targets"].values():
        t["kind"] = "recursive"
    cases.append({"id": "non-recursive-%d" % len(cases), "shape": rsh, "seed": 0,
                  "steps": [B("T2"), {"op": "nonedit", "kind": "comment"}, B("T2"), {"op": "nonedit", "kind": "comment"}, B("T2"),
                            {"op": "edit_env", "t": "T1"}, B("T2"), B("T2")]})
    # watch mode itself: Project.Watch runs while the tree is edited, also in the middle of a build
    # (a body is held after it has read its inputs); judged when watch mode has settled
    def W(root, *script):
        return {"op": "watch", "root": root, "script": list(script)}
    H = lambda t: {"op": "hold", "t": t}
    R = lambda t: {"op": "release", "t": t}
    held, quiet, nap = {"op": "wait_held"}, {"op": "quiet"}, {"op": "sleep"}
    for name in (["chain", "generated"] if quick else ["chain", "generated", "diamond", "twopkg", "nestedpkg"]):
        shape = SHAPES[name]
        top = roots_of(shape)[0]
        inner = sorted(n for n in shape["targets"] if n != top)[0]
        s0 = [s for s in shape["sources"] if not any(s in t["gens"] for t in shape["targets"].values())][0]
        es = {"op": "edit_src", "s": s0}
        ee = {"op": "edit_env", "t": inner}
        add("watchloop", name, [B(top), W(top, es, quiet)])
        add("watchloop", name, [B(top), W(top, H(inner), es, held, es, R(inner), quiet)])
        add("watchloop", name, [B(top), W(top, {"op": "nonedit", "kind": "touch"}, quiet, {"op": "nonedit", "kind": "rewrite"}, quiet)])
        add("watchloop", name, [B(top), W(top, ee, quiet, es, nap, es, quiet)])
        add("watchloop", name, [W(top, H(inner), es, held, ee, es, R(inner), nap, es, quiet)])
        add("watchloop", name, [B(top), W(top, es, nap, es, nap, ee, nap, es, nap, es, quiet)])
    for name, shape in FAILING_SHAPES.items():
        for top in sorted(shape["targets"]):
            c = {"id": "bad-%s-%d" % (name, len(cases)), "shape": shape, "seed": 0,
                 "steps": [dict(B(top), clean=False), dict(B(top, "dry"), clean=False), dict(B(top, rerun=True), clean=False)]}
            cases.append(c)
    # (c) systematic crash enumeration: every point x label x hit on selected shapes
    crash_shapes = ["chain", "generated", "gendep"] if quick else ["chain", "generated", "gendep", "diamond", "twopkg", "always"]
    for name in crash_shapes:
        shape = SHAPES[name]
        top = roots_of(shape)[0]
        srcs = [s for s in shape["sources"] if not any(s in t["gens"] for t in shape["targets"].values())]
        es = {"op": "edit_src", "s": srcs[0]} if srcs else {"op": "edit_env", "t": sorted(shape["targets"])[0]}
        labels = sorted(shape["targets"]) + shape["sources"]
        for p in POINTS:
            for l in (labels if p != "index.created" else [""]):
                if p.startswith("body") and l not in shape["targets"]:
                    continue
                for hit in (1, 2):
                    if quick and hit == 2 and not p.startswith("save"):
                        continue
                    cr = {"point": p, "label": l, "hit": hit}
                    add("crash", name, [B(top), es, B(top, crash=cr), B(top), B(top)])
                    if p in ("index.created", "save.created", "save.encoded") and hit == 1:
                        # what the death left behind is first read by a command that prefers the index
                        add("crash", name, [B(top), es, B(top, crash=cr), B(top, gc=True, index=True), B(top)])
                    if not quick:
                        add("crash", name, [B(top, crash=cr), B(top), B(top)])
                        add("crash", name, [B(top), es, B(top, crash=cr), es, B(top, fail=[sorted(shape["targets"])[0]]), B(top), B(top)])
    # (c') an edit, a death in the middle of a body that has already written products, the edit undone
    for name in ["generated", "gendep"]:
        shape = SHAPES[name]
        top = roots_of(shape)[0]
        gen = sorted(n for n, t in shape["targets"].items() if t["gens"])[0]
        s0 = [s for s in shape["sources"] if not any(s in t["gens"] for t in shape["targets"].values())][0]
        for point in ("body.mid", "eval.after", "save.created"):
            cr = {"point": point, "label": gen, "hit": 1}
            add("crash", name, [B(top), {"op": "edit_src", "s": s0}, B(top, crash=cr), {"op": "revert_src", "s": s0}, B(top), B(top)])
            add("crash", name, [B(top), {"op": "edit_env", "t": gen}, B(top, crash=cr), {"op": "revert_env", "t": gen}, B(top), B(top)])
    # (d) random histories
    for i in range(70 if quick else 900):
        name = rnd.choice([n for n in SHAPES if n != "unwire"])    # (its from-scratch builds are not comparable)
        shape = SHAPES[name]
        steps = []
        nb = 0
        reshaped = False
        cur = shape
        for _ in range(rnd.randrange(4, 11)):
            r = rnd.random()
            tnames = sorted(cur["targets"])
            srcs = [s for s in cur["sources"] if not any(s in t["gens"] for t in cur["targets"].values())]
            gens = [s for s in cur["sources"] if s not in srcs]
            if r < 0.45 or nb == 0:
                mode = rnd.choice(["real", "real", "real", "dry", "always"])
                st = B(rnd.choice(tnames), mode)
                if rnd.random() < 0.15 and mode == "real":
                    st["fail"] = [rnd.choice(tnames)]
                if rnd.random() < 0.12 and mode != "dry":
                    st["crash"] = {"point": rnd.choice(POINTS), "label": rnd.choice(tnames + cur["sources"]), "hit": rnd.choice([1, 1, 2])}
                    st["clean"] = False
                if rnd.random() < 0.1:
                    st["gc"] = True
                if "crash" not in st and rnd.random() < 0.12:
                    st["via"] = "repl"     # started with run(), observed through its callback
                steps.append(st)
                nb += 1
            elif r < 0.6:
                steps.append({"op": "edit_env", "t": rnd.choice(tnames)})
            elif r < 0.75 and srcs:
                s = rnd.choice(srcs)
                st = {"op": "edit_src", "s": s}
                if s in cur.get("dirs", []):
                    st["kind"] = rnd.choice(["rename", "swap", "edit", "hidden", "hidden-nested", "dangling", "renamedir", "movefile", "emptydir"])
                steps.append(st)
            elif r < 0.80 and gens:
                steps.append({"op": "delete", "s": rnd.choice(gens)})
            elif r < 0.84 and nb > 0:
                # an edit is undone
                if rnd.random() < 0.5 or not srcs:
                    steps.append({"op": "revert_env", "t": rnd.choice(tnames)})
                else:
                    s = rnd.choice(srcs)
                    if s not in cur.get("dirs", []):
                        steps.append({"op": "revert_src", "s": s})
            elif r < 0.95:
                steps.append({"op": "nonedit", "kind": rnd.choice(["touch", "rewrite", "comment"])})
            elif name in RESHAPE and name not in ("addedge", "rewire") and (not reshaped or rnd.random() < 0.5):
                # (the shapes whose from-scratch builds are not comparable after an edge went away stay out)
                steps.append({"op": "reshape"})
                cur = RESHAPE[name] if cur is shape else shape
                reshaped = True
        steps.append(B(roots_of(cur)[0]))
        add("rnd", name, steps, values=rnd.choice(["", "", "int16", "str", "dict"]))
    return cases


def to_p_line(t):
    drop = ("msg", "reason", "changed", "out", "point", "label", "hit", "err_gc")
    ev = []
    for e in t["events"]:
        if e["ev"] in ("HarnessError", "ChildError"):
            continue
        ev.append({k: v for k, v in e.items() if k not in drop})
    return {"id": t["id"], "cfg": t["cfg"], "events": ev}


def real_builds(t):
    """[(root, mode, sorted executed targets, sorted evaluating labels, end)] of a real trace."""
    res, cur = [], None
    for e in t["events"]:
        if e["ev"] == "BuildBegin":
            cur = {"root": e["root"], "mode": e["mode"], "execd": set(), "evaluating": set(), "end": None}
        elif cur is not None and e["ev"] == "ExecEnd":
            cur["execd"].add(e["l"])
        elif cur is not None and e["ev"] == "Evaluating":
            cur["evaluating"].add(e["l"])
        elif cur is not None and e["ev"] == "BuildEnd":
            cur["end"] = "fail" if e["err"] else "ok"
            res.append(cur)
            cur = None
        elif e["ev"] == "Crash":
            if cur is None:
                cur = {"root": "", "mode": "", "execd": set(), "evaluating": set()}
            cur["end"] = "crash"
            res.append(cur)
            cur = None
    return res


def pipeline(tier):
    t0 = time.time()
    sd = vlib.seed()
    rnd = random.Random(sd)
    wd = vlib.scratch("build-")
    res = {"family": "build", "tier": tier, "seed": sd, "stamp": STAMP}
    quick = tier == "quick"
    with ThreadPoolExecutor(max_workers=2) as ex:
        fut_design = ex.submit(design_check, tier, STAMP)
        # TLC-generated histories
        hs = gen_histories(["chain", "generated", "diamond", "always", "chain3"], STAMP, 150 if quick else 1500, sd,
                           dict(MaxEdits=3, MaxBuilds=4, MaxCrashes=1, MaxFails=1, MaxGCs=1))
        res["design"] = fut_design.result()
    seen, cases = set(), []
    for h in hs:
        k = json.dumps([h["cfg"]["shape"], h["h"]], sort_keys=True)
        if k in seen:
            continue
        seen.add(k)
        c = history_to_case(len(cases), h, rnd)
        if c:
            cases.append(c)
    if quick:
        rnd.shuffle(cases)
        cases = cases[:250]
    res["tlc_histories"] = len(cases)
    cases += harness_cases(tier, sd)
    binary = vlib.build_test("", wd, name="dawn")
    nsh = 12
    with open(os.path.join(wd, "cases.ndjson"), "w") as f:
        for c in cases:
            f.write(json.dumps({k: v for k, v in c.items() if k not in ("expect", "exact")}) + "\n")

    crashed = []

    def shard(i):
        env = dict(os.environ, VERIF_CASES=os.path.join(wd, "cases.ndjson"), VERIF_OUT=os.path.join(wd, "traces-%d.ndjson" % i),
                   VERIF_SHARD="%d/%d" % (i, nsh))
        open(env["VERIF_OUT"], "w").close()
        for attempt in range(10):
            p = vlib.run_cmd([binary, "-test.run", "^TestVerifBuild$", "-test.timeout", "3000s"], env=env, cwd=wd)
            if p.returncode == 0:
                break
            what = vlib.fatal_in_code_under_test(p.stdout)
            cur = env["VERIF_OUT"] + ".cur"
            if not what or not os.path.exists(cur) or attempt == 9:
                raise Inconclusive("build harness failed (exit %d):\n%s" % (p.returncode, p.stdout[-3000:]))
            # dawn itself killed the process in the middle of a history: record it, go on after it
            cid = open(cur).read().strip()
            crashed.append({"id": cid, "what": what, "output": p.stdout[-1500:]})
            env["VERIF_SKIP_UNTIL"] = cid
        with open(env["VERIF_OUT"]) as f:
            return [json.loads(l) for l in f]

    traces = []
    with ThreadPoolExecutor(max_workers=nsh) as ex:
        for r in ex.map(shard, range(nsh)):
            traces.extend(r)
    # the line writer driven directly (C18): every chunking of every short text, one and more rounds
    lwout = os.path.join(wd, "traces-lw.ndjson")
    open(lwout, "w").close()
    p = vlib.run_cmd([binary, "-test.run", "^TestVerifLineWriter$", "-test.timeout", "600s"],
                     env=dict(os.environ, VERIF_OUT=lwout, VERIF_SEED=str(sd), VERIF_LW_LEN="3" if quick else "4"), cwd=wd)
    if p.returncode != 0:
        raise Inconclusive("line writer harness failed (exit %d):\n%s" % (p.returncode, p.stdout[-2000:]))
    # ... and written to by two goroutines at once (stdout and stderr of one target are one writer)
    p = vlib.run_cmd([binary, "-test.run", "^TestVerifLineWriterConcurrent$", "-test.timeout", "600s"],
                     env=dict(os.environ, VERIF_OUT=lwout, VERIF_LW_PAR="40" if quick else "400"), cwd=wd)
    if p.returncode != 0:
        what = vlib.fatal_in_code_under_test(p.stdout)
        if not what:
            raise Inconclusive("concurrent line writer harness failed (exit %d):\n%s" % (p.returncode, p.stdout[-2000:]))
        with open(lwout, "a") as f:
            f.write(json.dumps({"id": "lwpar-crash", "cfg": {"targets": {}, "sources": []},
                                "events": [{"ev": "LinesPar", "wrote": {"a": 0, "b": 0, "lines": 0}, "got": {"a": 0, "b": 0, "lines": 0}, "panic": "fatal: " + what}]}) + "\n")
    lw = [json.loads(l) for l in open(lwout)]
    for t in lw:
        t["steps"] = []
    res["linewriter_cases"] = sum(1 for t in lw for e in t["events"] if e["ev"] == "Lines")
    res["linewriter_long_lines"] = sum(1 for t in lw for e in t["events"] if e["ev"] == "LineLens")
    res["linewriter_two_writer_runs"] = sum(1 for t in lw for e in t["events"] if e["ev"] == "LinesPar")
    traces.extend(lw)
    herr = [t for t in traces if any(e["ev"] == "HarnessError" for e in t["events"])]
    if herr:
        raise Inconclusive("build harness error: %s" % herr[0]["events"][:1])
    by_id = {c["id"]: c for c in cases}
    res["n_traces"] = len(traces)
    res["events"] = sum(len(t["events"]) for t in traces)
    res["builds"] = sum(1 for t in traces for e in t["events"] if e["ev"] == "BuildBegin")
    res["repl_builds"] = sum(1 for t in traces for st in (t.get("steps") or []) if st.get("via") == "repl")
    res["crashes"] = sum(1 for t in traces for e in t["events"] if e["ev"] == "Crash")
    res["crash_points_hit"] = sorted({"%s" % e.get("point") for t in traces for e in t["events"] if e["ev"] == "Crash"})
    res["child_errors"] = sum(1 for t in traces for e in t["events"] if e["ev"] == "ChildError")
    viols, n = vlib.eval_traces(SPEC, "BuildTraceP", "BuildTraceP.cfg", [to_p_line(t) for t in traces], shards=12)
    tr_by_id = {t["id"]: t for t in traces}
    out = []
    for v in viols:
        t = tr_by_id[v["id"]]
        c = by_id.get(v["id"])
        for x in v["viol"]:
            out.append({"prop": x["prop"], "what": x["what"], "l": x.get("l", ""), "at": x.get("at"), "id": v["id"],
                        "case": {k: vv for k, vv in (c or {}).items() if k not in ("expect",)},
                        "values": (c or {}).get("values", ""),
                        "kind": next(iter({t2.get("kind", "") for t2 in (c or {}).get("shape", {}).get("targets", {}).values()}), ""),
                        "around": [e for e in to_p_line(t)["events"][max(0, (x.get("at") or 1) - 6):(x.get("at") or 1)]]})
    for c in crashed:
        out.append({"prop": "C18", "what": "the build process was killed by the Go runtime inside dawn (run-done never delivered): " + c["what"],
                    "l": "", "at": 0, "id": c["id"], "case": {k: vv for k, vv in (by_id.get(c["id"]) or {}).items() if k != "expect"},
                    "values": "", "kind": "", "around": []})
    res["process_crashes_inside_dawn"] = len(crashed)
    res["violations"] = out
    # design conformance: executed sets predicted by Build.tla vs the real ones
    drift = []
    checked = 0
    for c in cases:
        if "expect" not in c or not c.get("exact") or c["id"] not in tr_by_id or c.get("values"):
            continue
        rb = real_builds(tr_by_id[c["id"]])
        exp = [e for e in c["expect"] if e]
        if any(e["end"] == "crash" for e in exp):
            # up to the crash the prediction is exact only for the builds before it
            k = next(i for i, e in enumerate(exp) if e["end"] == "crash")
            exp, rb = exp[:k], rb[:k]
        checked += 1
        for i, e in enumerate(exp):
            if i >= len(rb):
                drift.append({"id": c["id"], "build": i, "what": "missing build"})
                break
            r = rb[i]
            if sorted(e["execd"]) != sorted(r["execd"]) or sorted(e["evaluating"]) != sorted(r["evaluating"]) or e["end"] != r["end"]:
                drift.append({"id": c["id"], "build": i, "spec": {"execd": sorted(e["execd"]), "evaluating": sorted(e["evaluating"]), "end": e["end"]},
                              "real": {"execd": sorted(r["execd"]), "evaluating": sorted(r["evaluating"]), "end": r["end"]}})
                break
    res["drift_checked"], res["drift_count"], res["drift"] = checked, len(drift), drift[:10]
    # watch-mode traces against the design spec of the debouncer / builder (diagnostic)
    wl = [{"id": t["id"], "events": [e for e in to_p_line(t)["events"] if e["ev"] in ("WatchBegin", "Edit", "Watch", "BuildBegin", "Load", "BuildEnd", "Quiesce")]}
          for t in traces if any(e["ev"] == "WatchBegin" for e in t["events"])]
    res["watch_traces"] = len(wl)
    try:
        wd_ = vlib.eval_drift(os.path.join(vlib.VERIF, "specs", "watch"), "WatchTrace", "WatchTrace.cfg", wl)
        res["watch_drift_count"], res["watch_drift"] = len(wd_), wd_[:5]
    except Inconclusive as e:
        res["watch_drift_error"] = str(e)[:600]
    res["distinct_histories"] = len({json.dumps([c["shape"], c["steps"], c.get("values", "")], sort_keys=True) for c in cases})
    res["samples"] = [{"id": t["id"], "steps": t["steps"][:8], "events": to_p_line(t)["events"][:14]} for t in traces[:1] + traces[-1:]]
    res["wall_s"] = time.time() - t0
    return res


def sig_of_c18(v):
    return "%s|%s" % (v["prop"], v["what"])


def sig_of(v):
    """Signature of a violation for the known-findings file: property, what, and the
    minimal scenario key (value class of the edited atom when that is what matters)."""
    return "%s|%s|values=%s" % (v["prop"], v["what"], v.get("values", ""))


def check(prop, tier):
    t0 = time.time()
    res = vlib.FamilyRun("build", tier).get(lambda: pipeline(tier))
    if not res["design"]["ok"]:
        raise Inconclusive("TLC rejects the design spec Build (x) BuildMon (stamp=%s): %s" % (res["stamp"], res["design"]["errors"]))
    viols = [dict(v, sig=sig_of(v) if prop != "C18" else sig_of_c18(v)) for v in res["violations"] if v["prop"] == prop]
    level = "model_checking"
    cov = {
        "states": res["design"]["distinct"], "transitions": res["design"]["generated"],
        "traces_validated_against_impl": res["n_traces"], "samples": res["samples"],
        "design_runs": [{k: r[k] for k in ("shapes", "bounds", "distinct")} for r in res["design"]["runs"]],
        "design_stamp_variant": res["stamp"],
        "tlc_generated_histories_replayed": res["tlc_histories"], "real_histories": res["n_traces"], "real_builds": res["builds"],
        "builds_started_with_run_builtin_and_observed_through_its_callback": res.get("repl_builds", 0),
        "process_deaths_injected": res["crashes"], "crash_points_hit": res["crash_points_hit"],
        "events_evaluated_by_monitor": res["events"], "distinct_histories": res["distinct_histories"],
        "linewriter_chunkings_executed": res.get("linewriter_cases", 0),
        "linewriter_long_line_cases_judged_by_length": res.get("linewriter_long_lines", 0),
        "linewriter_runs_with_two_concurrent_writers": res.get("linewriter_two_writer_runs", 0),
        "histories_compared_with_spec_prediction": res["drift_checked"], "design_drift": res["drift_count"],
        "design_drift_samples": res["drift"][:3], "child_errors": res["child_errors"], "exhaustive": False,
        "watch_mode_runs_validated_against_Watch_tla": res.get("watch_traces", 0), "watch_design_drift": res.get("watch_drift_count", 0),
        "watch_design_drift_samples": res.get("watch_drift", [])[:2],
        "rule": "distinct = distinct (shape, value class, step sequence) histories executed on the real dawn with a fresh Load+Run per step; every history is evaluated by BuildMon",
        "family_wall_s": round(res["wall_s"], 1),
    }
    if res.get("watch_drift_count"):
        print("DRIFT: %d watch-mode runs are not behaviours of specs/watch/Watch.tla (diagnostic only)" % res["watch_drift_count"])
    if res.get("watch_drift_error"):
        cov["watch_design_drift_error"] = res["watch_drift_error"]
    if res["drift_count"]:
        print("DRIFT: %d histories executed different targets than specs/build/Build.tla predicts (diagnostic only)" % res["drift_count"])
    assumptions = ["process death = os.Exit at a named point (no power loss: written data survives)", "os.Rename is atomic",
                   "the Starlark interpreter and Go's os package are trusted",
                   "bodies are deterministic functions of the inputs they read"]
    return vlib.conclude(prop, tier, level, cov, t0, viols, assumptions,
                         lambda v: {"family": "build", "property": prop, "case": v["case"],
                                    "violation": {k: v[k] for k in ("prop", "what", "l", "at", "id", "around")}})


def replay(prop, path):
    """Re-executes the recorded history on the real dawn and re-evaluates it with BuildMon."""
    with open(path) as f:
        r = json.load(f)
    case = r.get("case")
    if not case:
        raise Inconclusive("replay file has no case")
    wd = vlib.scratch("replay-")
    binary = vlib.build_test("", wd, name="dawn")
    with open(os.path.join(wd, "cases.ndjson"), "w") as f:
        f.write(json.dumps({k: v for k, v in case.items() if k not in ("expect", "exact")}) + "\n")
    env = dict(os.environ, VERIF_CASES=os.path.join(wd, "cases.ndjson"), VERIF_OUT=os.path.join(wd, "traces.ndjson"))
    open(env["VERIF_OUT"], "w").close()
    p = vlib.run_cmd([binary, "-test.run", "^TestVerifBuild$", "-test.timeout", "600s"], env=env, cwd=wd)
    if p.returncode != 0:
        raise Inconclusive("build harness failed:\n" + p.stdout[-2000:])
    traces = [json.loads(l) for l in open(env["VERIF_OUT"])]
    viols, n = vlib.eval_traces(SPEC, "BuildTraceP", "BuildTraceP.cfg", [to_p_line(t) for t in traces], shards=1)
    got = [(x["prop"], x["what"]) for v in viols for x in v["viol"]]
    print("replayed %d history; monitor reports: %s" % (len(traces), got or "no violation"))
    if (r["violation"]["prop"], r["violation"]["what"]) in got:
        print("VIOLATION property=%s replay=%s" % (prop, path))
        return 1
    print("the recorded violation did not reproduce")
    return 0
