"""MVS family (C10 build list, C11 requirement edits): MVS.tla defines reachability / maximum
selection declaratively and as a worklist machine that TLC checks for order independence
on enumerated universes; the real BuildList / Tidy / Get / UpgradeAll run over the same
and over random larger universes (fake repositories of the package's own test suite, cold
and warm caches, shuffled declaration order) and MvsMon decides every result against the
spec's build list and query resolution."""
import itertools
import json
import os
import random
import time

import vlib
from vlib import Inconclusive

SPEC = os.path.join(vlib.VERIF, "specs", "mvs")


def small_universes():
    """All universes over a/1 a/2 b/1 b/2 a@v2/1 where every version requires at most one
    version of each other path."""
    paths = {"a": [1, 2], "b": [1, 2], "a@v2": [1]}
    nodes = [(p, n) for p, ns in paths.items() for n in ns]
    per_node = []
    for (p, n) in nodes:
        others = [q for q in paths if q != p]
        opts = [[None] + [(q, m) for m in paths[q]] for q in others]
        per_node.append([[x for x in combo if x] for combo in itertools.product(*opts)])
    for combo in itertools.product(*per_node):
        yield {"%s/%d" % nd: ["%s/%d" % r for r in reqs] for nd, reqs in zip(nodes, combo)}


def random_universe(rnd, npaths, nvers):
    names = ["a", "b", "c", "d", "e"][:npaths]
    paths = {p: list(range(1, rnd.randrange(1, nvers + 1) + 1)) for p in names}
    if rnd.random() < 0.5:
        paths[names[0] + "@v2"] = list(range(1, rnd.randrange(1, 3) + 1))
    req = {}
    for p, ns in paths.items():
        for n in ns:
            rs = []
            for q, ms in paths.items():
                if q != p and rnd.random() < 0.45:
                    rs.append("%s/%d" % (q, rnd.choice(ms)))
            if len(ns) > 1 and rnd.random() < 0.2:
                # a version that requires another version of its own project
                rs.append("%s/%d" % (p, rnd.choice([m for m in ns if m != n])))
            rnd.shuffle(rs)
            req["%s/%d" % (p, n)] = rs
    return req, paths


def rich_universe(rnd):
    """Projects with patch releases and untagged revisions (pseudo-versions): version numbers are
    100*minor + 10*patch (+5 for the untagged revision that follows that tag)."""
    names = ["a", "b", "c", "d"][: rnd.randrange(2, 5)]
    paths = {}
    for p in names + ([names[0] + "@v2"] if rnd.random() < 0.3 else []):
        ns = []
        only_pre = rnd.random() < 0.12         # a project that has no release yet
        for minor in range(2, rnd.randrange(2, 5) + 1):     # (from 2: the pre-releases of v?.1.0 would be below 100)
            for patch in range(0, rnd.randrange(0, 3) + 1):
                n = 100 * minor + 10 * patch
                if only_pre or rnd.random() < 0.2:
                    # pre-releases -rc.1, -rc.2 of this tag
                    ns += [n - 3, n - 2][: rnd.randrange(1, 3)]
                if only_pre:
                    continue
                ns.append(n)
                if rnd.random() < 0.35:
                    ns.append(n + 5)
        paths[p] = sorted(set(ns))
    req = {}
    for p, ns in paths.items():
        for n in ns:
            rs = []
            for q, ms in paths.items():
                if q != p and rnd.random() < 0.4:
                    rs.append("%s/%d" % (q, rnd.choice(ms)))
            if len(ns) > 1 and rnd.random() < 0.15:
                rs.append("%s/%d" % (p, rnd.choice([m for m in ns if m != n])))
            rnd.shuffle(rs)
            req["%s/%d" % (p, n)] = rs
    return req, paths


def rich_ops(rnd, paths):
    ops = [{"kind": "tidy", "path": "", "q": {"kind": "", "n": 0}}, {"kind": "upgradeall", "path": "", "q": {"kind": "", "n": 0}}]
    kinds = ["latest", "exact", "lt", "le", "gt", "ge", "upgrade", "patch", "ref", "ref", "patch"]

    def get(p, k):
        tagged = [n for n in paths[p] if n % 10 in (0, 7, 8, 9)]
        n = rnd.choice(paths[p]) if k == "ref" else rnd.choice(tagged + [max(tagged) // 10 * 10 + 100])
        return {"kind": "get", "path": p, "q": {"kind": k, "n": n}}

    for _ in range(5):
        p = rnd.choice(sorted(paths))
        ops.append(get(p, rnd.choice(kinds)))
        if rnd.random() < 0.7:
            # a second operation on the result of the first: sequences of get / tidy / upgrade
            first = len(ops)
            nxt = rnd.choice(["patch", "upgrade", "latest", "ref", "tidy", "upgradeall", "le"])
            if nxt in ("tidy", "upgradeall"):
                ops.append({"kind": nxt, "path": "", "q": {"kind": "", "n": 0}, "from": first})
            else:
                ops.append(dict(get(p if rnd.random() < 0.7 else rnd.choice(sorted(paths)), nxt), **{"from": first}))
    return ops


def design_sized(req, roots, bound=11):
    """The worklist machine of MVS.tla visits the reachable versions in every order: its state
    space grows with the subsets of what the roots reach, so the design check takes universes
    whose roots reach at most `bound` versions (every universe still goes to the real resolver)."""
    seen, todo = set(), [r for r in roots]
    while todo:
        x = todo.pop()
        if x in seen:
            continue
        seen.add(x)
        todo.extend(req.get(x, []))
    return len(seen) <= bound


def tla_universe(req, roots):
    nodes = sorted(req)
    body = " [] ".join('x = "%s" -> <<%s>>' % (n, ", ".join('"%s"' % r for r in req[n])) for n in nodes)
    return '[u |-> [req |-> [x \\in {%s} |-> CASE %s]], roots |-> <<%s>>]' % (
        ", ".join('"%s"' % n for n in nodes), body, ", ".join('"%s"' % r for r in roots))


def ops_for(rnd, req, paths, roots, many):
    ops = [{"kind": "tidy", "path": "", "q": {"kind": "", "n": 0}}, {"kind": "upgradeall", "path": "", "q": {"kind": "", "n": 0}}]
    kinds = ["latest", "exact", "lt", "le", "gt", "ge", "upgrade", "patch"]
    for _ in range(6 if many else 3):
        p = rnd.choice(sorted(paths))
        k = rnd.choice(kinds)
        ops.append({"kind": "get", "path": p, "q": {"kind": k, "n": rnd.choice(paths[p] + [max(paths[p]) + 1])}})
    return ops


def pipeline(tier):
    t0 = time.time()
    quick = tier == "quick"
    sd = vlib.seed()
    rnd = random.Random(sd * 23 + 9)
    wd = vlib.scratch("mvs-")
    res = {"family": "mvs", "tier": tier, "seed": sd}
    small = list(small_universes())
    rnd.shuffle(small)
    cases = []
    design = []
    spaths = {"a": [1, 2], "b": [1, 2], "a@v2": [1]}
    for i, req in enumerate(small[: (400 if quick else 6000)]):
        roots_opts = [["a/1"], ["a/1", "b/2"], ["b/1", "a@v2/1"], ["a/2", "b/1"], ["a/1", "a@v2/1", "b/1"], ["a/1", "a/2"], ["b/2", "b/1", "a/1"]]
        roots = roots_opts[i % len(roots_opts)]
        c = {"id": "small-%d" % i, "u": {"req": req}, "roots": roots, "ops": ops_for(rnd, req, spaths, roots, False)}
        if i % 3 == 1:
            # requirement names that collide with the default names of other projects
            c["names"] = [rnd.choice(["a", "b", "a@v2", "u"]) + ("" if k == 0 else str(k)) for k in range(len(roots))]
        cases.append(c)
        if i < (150 if quick else 1500):
            design.append(tla_universe(req, roots))
    for i in range(300 if quick else 5000):
        req, paths = random_universe(rnd, rnd.randrange(2, 6), rnd.randrange(1, 5))
        nodes = sorted(req)
        roots = []
        for p in rnd.sample(sorted(paths), rnd.randrange(1, min(3, len(paths)) + 1)):
            roots.append("%s/%d" % (p, rnd.choice(paths[p])))
        if i % 4 == 0 and roots:
            p0 = roots[0].rsplit("/", 1)[0]
            roots.append("%s/%d" % (p0, rnd.choice(paths[p0])))   # the same project twice, under two names
        c = {"id": "rnd-%d" % i, "u": {"req": req}, "roots": roots, "ops": ops_for(rnd, req, paths, roots, True)}
        if i % 3 == 2:
            pool = sorted(paths) + ["u"]
            c["names"] = [rnd.choice(pool) + ("" if k == 0 else "-%d" % k) for k in range(len(roots))]
        cases.append(c)
        if i < (60 if quick else 180) and design_sized(req, roots):
            design.append(tla_universe(req, roots))
    for i in range(250 if quick else 4000):
        req, paths = rich_universe(rnd)
        roots = []
        for p in rnd.sample(sorted(paths), rnd.randrange(1, min(3, len(paths)) + 1)):
            roots.append("%s/%d" % (p, rnd.choice(paths[p])))
        c = {"id": "rich-%d" % i, "u": {"req": req}, "roots": roots, "ops": rich_ops(rnd, paths)}
        if i % 3 == 0:
            # release candidates promoted as they were: the pre-release tag and the release tag sit on
            # one commit (same requirements); a ref that names that commit resolves to the release
            cot = [(p, n) for p, ns in paths.items() for n in ns if n % 10 in (7, 8, 9) and (n // 10 + 1) * 10 in ns]
            if cot:
                for p, n in cot:
                    req["%s/%d" % (p, n)] = list(req["%s/%d" % (p, (n // 10 + 1) * 10)])
                c["u"]["cotag"] = ["%s/%d" % (p, n) for p, n in cot]
                for op in c["ops"]:
                    if op["kind"] == "get" and op["q"]["kind"] == "ref" and (op["path"], op["q"]["n"]) in cot:
                        op["q"]["n"] = (op["q"]["n"] // 10 + 1) * 10
                for p, n in cot[:2]:
                    c["ops"].append({"kind": "get", "path": p, "q": {"kind": "ref", "n": (n // 10 + 1) * 10}})
        if i % 2:
            c["host"] = "github"      # one repository of a well-known hosting service holding all projects
        cases.append(c)
        if i < (40 if quick else 120) and design_sized(req, roots):
            design.append(tla_universe(req, roots))
    # the history of the documentation of 'get': a branch ahead of the last tag, then @patch
    req = {"p/120": [], "p/125": [], "q/100": ["p/120"]}
    cases.append({"id": "rich-doc", "u": {"req": req}, "roots": ["p/120", "q/100"],
                  "ops": [{"kind": "get", "path": "p", "q": {"kind": "ref", "n": 125}},
                          {"kind": "get", "path": "p", "q": {"kind": "patch", "n": 0}, "from": 1},
                          {"kind": "get", "path": "p", "q": {"kind": "upgrade", "n": 0}, "from": 1},
                          {"kind": "get", "path": "p", "q": {"kind": "ref", "n": 120}, "from": 1}]})
    body = "---- MODULE MCMvsGen ----\nEXTENDS MVS\nMCU == {\n  " + ",\n  ".join(design) + "\n}\n====\n"
    cfg = "SPECIFICATION Spec\nCONSTANT Universes <- MCU\nINVARIANT OrderIndependent\nPROPERTY Terminates\n"
    rc, out, _ = vlib.tlc(SPEC, "MCMvsGen", cfg="MCMvsGen.cfg", workers=16, timeout=3000, heap="8g",
                          files={"MCMvsGen.tla": body, "MCMvsGen.cfg": cfg})
    gen, dist = vlib.tlc_stats(out)
    res["cotag_universes"] = sum(1 for c in cases if c["u"].get("cotag"))
    res["design"] = {"ok": "No error has been found" in out, "distinct": dist, "generated": gen, "universes": len(design), "errors": vlib.tlc_error(out)[:3]}
    binary = vlib.build_test("internal/mvs", wd)
    lines = vlib.run_harness(binary, "TestVerifMVS", cases, wd, extra_env={"VERIF_SEED": str(sd)}, timeout=1500)
    lines, crashes = vlib.split_crashes(lines)
    res["calls"] = {}
    for l in lines:
        for e in l["events"]:
            k = e["ev"] if e["ev"] != "Op" else "Op:" + e["kind"]
            res["calls"][k] = res["calls"].get(k, 0) + 1
    res["universes"] = len(lines)
    by_id = {l["id"]: l for l in lines}
    viols, n = vlib.eval_traces(SPEC, "MvsTraceP", "MvsTraceP.cfg", lines, shards=14, timeout=3000)
    outv = []
    for v in viols:
        l = by_id[v["id"]]
        for x in v["viol"]:
            e = l["events"][x["at"] - 1]
            outv.append({"prop": x["prop"], "what": x["what"], "x": x.get("x"), "id": v["id"], "universe": l["cfg"], "event": e})
    for t in crashes:
        for prop in ("C10", "C11"):
            outv.append({"prop": prop, "what": "the process was killed by the Go runtime inside the resolver: " + t["crash"], "x": "", "id": t["id"],
                         "universe": {}, "event": {}})
    res["violations"] = outv
    res["op_errors"] = sum(1 for l in lines for e in l["events"] if e["ev"] == "Op" and e["err"])
    res["samples"] = [{"universe": lines[0]["cfg"], "events": lines[0]["events"][:2]}, {"universe": lines[-1]["cfg"], "events": lines[-1]["events"][3:5]}]
    res["wall_s"] = time.time() - t0
    return res


def sig_of(v):
    return "%s|%s|%s" % (v["prop"], v["what"], v.get("x"))


def check(prop, tier):
    t0 = time.time()
    res = vlib.FamilyRun("mvs", tier).get(lambda: pipeline(tier))
    if not res["design"]["ok"]:
        raise Inconclusive("TLC rejects MVS.tla (order independence): %s" % res["design"]["errors"])
    viols = [dict(v, sig=sig_of(v)) for v in res["violations"] if v["prop"] == prop]
    if prop == "C10":
        n = res["calls"].get("BuildList", 0)
        level = "model_checking"
    else:
        n = sum(v for k, v in res["calls"].items() if k.startswith("Op:"))
        level = "exploration"
    cov = {"states": res["design"]["distinct"], "transitions": res["design"]["generated"],
           "traces_validated_against_impl": n, "samples": res["samples"], "real_calls": res["calls"],
           "universes_model_checked": res["design"]["universes"], "universes_executed": res["universes"], "universes_with_two_tags_on_one_commit": res.get("cotag_universes", 0),
           "evaluations": n, "distinct_nontrivial": res["universes"], "exhaustive": False,
           "operations_that_returned_an_error": res["op_errors"],
           "rule": "seeded sample of all universes over {a/1 a/2 b/1 b/2 a@v2/1} (each version requiring at most one version of each other project, cycles included) with 5 root sets, plus random universes of 2-5 projects x 1-4 versions (+ a v2 major); each resolved with a cold cache, a warm cache and a fresh cache under shuffled declaration order; tidy, upgrade-all and get queries (latest, exact, <, <=, >, >=, upgrade, patch, ref) each applied twice; universes with patch releases and untagged revisions (pseudo-versions, branch refs) and two-operation sequences; distinct = distinct universes",
           "family_wall_s": round(res["wall_s"], 1)}
    assumptions = ["github.com/pgavlin/mvs (the generic MVS algorithms) is part of the system under test; golang.org/x/mod/semver is trusted",
                   "a ref query denotes the tag on the named revision or else the pseudo-version based on the closest tagged ancestor"]
    return vlib.conclude(prop, tier, level, cov, t0, viols, assumptions,
                         lambda v: {"family": "mvs", "property": prop, "violation": {k: v[k] for k in ("prop", "what", "x", "id", "universe", "event")}})
