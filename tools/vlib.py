"""Shared plumbing for the dawn verification checks: scratch dirs, harness builds with
`go test -overlay`, TLC runs, trace evaluation by TLA+ monitors, evidence, known findings."""
import hashlib
import json
import os
import re
import shutil
import subprocess
import sys
import tempfile
import time
import fcntl
from concurrent.futures import ThreadPoolExecutor

VERIF = os.path.dirname(os.path.dirname(os.path.abspath(__file__)))
REPO = os.environ.get("VERIF_REPO", "/repo")
TLA_CP = "/opt/veriftools/tla/tla2tools.jar:/opt/veriftools/tla/CommunityModules-deps.jar"
MODULE = "github.com/pgavlin/dawn"

GOENV = dict(os.environ, GOFLAGS="-mod=mod", GOPROXY="off", GOSUMDB="off", GOTOOLCHAIN="local",
             CGO_ENABLED="0")


class Inconclusive(Exception):
    """The check could not decide (build failure, tool failure, timeout): exit 2."""


def seed():
    try:
        return int(os.environ.get("VERIF_SEED", "1"))
    except ValueError:
        return 1


_scratch_dirs = []


def scratch(prefix="verif-"):
    d = tempfile.mkdtemp(prefix=prefix, dir=os.environ.get("VERIF_TMP", tempfile.gettempdir()))
    _scratch_dirs.append(d)
    return d


def cleanup():
    if os.environ.get("VERIF_KEEP"):
        sys.stderr.write("kept scratch: %s\n" % " ".join(_scratch_dirs))
        return
    for d in _scratch_dirs:
        shutil.rmtree(d, ignore_errors=True)


# ---------------------------------------------------------------------------- hashing
def tree_hash(root, exclude=(".git",)):
    h = hashlib.sha256()
    for dp, dns, fns in os.walk(root):
        dns[:] = sorted(d for d in dns if d not in exclude)
        for fn in sorted(fns):
            p = os.path.join(dp, fn)
            try:
                with open(p, "rb") as f:
                    b = f.read()
            except OSError:
                continue
            h.update(os.path.relpath(p, root).encode())
            h.update(b"\0")
            h.update(hashlib.sha256(b).digest())
    return h.hexdigest()


def machinery_hash():
    h = hashlib.sha256()
    for sub in ("specs", "harness", "tools", "check", "known_findings.json"):
        p = os.path.join(VERIF, sub)
        if os.path.isdir(p):
            h.update(tree_hash(p, exclude=("__pycache__",)).encode())
        elif os.path.exists(p):
            h.update(open(p, "rb").read())
    return h.hexdigest()


# ---------------------------------------------------------------------------- harness build
def overlay_for(pkgs, extra=None):
    """pkgs: list of repo-relative package dirs ('' for root) whose overlay test files are
    under harness/overlay/<pkg or 'root'>/. The shared packages under harness/ (sched, ...)
    are always added as internal/zzverif/<name>."""
    rep = {}
    for name in os.listdir(os.path.join(VERIF, "harness")):
        d = os.path.join(VERIF, "harness", name)
        if name == "overlay" or not os.path.isdir(d):
            continue
        for fn in os.listdir(d):
            if fn.endswith(".go"):
                rep[os.path.join(REPO, "internal", "zzverif", name, fn)] = os.path.join(d, fn)
    for pkg in pkgs:
        src = os.path.join(VERIF, "harness", "overlay", pkg if pkg else "root")
        for fn in sorted(os.listdir(src)):
            if fn.endswith(".go"):
                rep[os.path.join(REPO, pkg, "zz_" + fn)] = os.path.join(src, fn)
    if extra:
        rep.update(extra)
    return {"Replace": rep}


def build_test(pkg, workdir, name=None, go="go1.26", tags="verif"):
    """Builds the test binary of repo package `pkg` ('' = root) with the overlay harness.
    Returns the binary path. Raises Inconclusive when it does not compile."""
    ov = os.path.join(workdir, "overlay-%s.json" % (name or pkg.replace("/", "_") or "root"))
    with open(ov, "w") as f:
        json.dump(overlay_for([pkg]), f)
    out = os.path.join(workdir, (name or pkg.replace("/", "_") or "root") + ".test")
    cmd = [go, "test", "-c", "-vet=off", "-tags", tags, "-overlay", ov, "-o", out, "./" + pkg]
    t0 = time.time()
    p = subprocess.run(cmd, cwd=REPO, env=GOENV, stdout=subprocess.PIPE, stderr=subprocess.STDOUT, text=True)
    if p.returncode != 0 or not os.path.exists(out):
        raise Inconclusive("harness for package %r does not build against the current tree:\n%s" % (pkg, p.stdout[-4000:]))
    return out


# ---------------------------------------------------------------------------- TLC
def tlc(specdir, module, cfg=None, workers=8, timeout=900, heap="8g", args=(), files=None, cwd=None,
        extra_modules=None):
    """Runs TLC on a copy of specdir (plus `files`: name -> content) in a scratch dir.
    Returns (returncode, stdout, workdir)."""
    wd = cwd or scratch("tlc-")
    for fn in os.listdir(specdir):
        if fn.endswith((".tla", ".cfg")):
            shutil.copy(os.path.join(specdir, fn), wd)
    for d in extra_modules or ():
        for fn in os.listdir(d):
            if fn.endswith(".tla"):
                shutil.copy(os.path.join(d, fn), wd)
    for fn, content in (files or {}).items():
        with open(os.path.join(wd, fn), "w") as f:
            f.write(content)
    jtmp = os.path.join(wd, "jtmp")
    os.makedirs(jtmp, exist_ok=True)
    cmd = ["java", "-XX:+UseParallelGC", "-Xmx" + heap, "-Xss256m", "-Djava.io.tmpdir=" + jtmp, "-cp", TLA_CP, "tlc2.TLC",
           "-workers", str(workers), "-metadir", os.path.join(wd, "meta-%d" % time.time_ns())]
    if cfg:
        cmd += ["-config", cfg]
    cmd += list(args) + [module]
    try:
        p = subprocess.run(cmd, cwd=wd, stdout=subprocess.PIPE, stderr=subprocess.STDOUT, text=True, timeout=timeout)
    except subprocess.TimeoutExpired as e:
        raise Inconclusive("TLC timed out after %ds on %s" % (timeout, module))
    return p.returncode, p.stdout, wd


_STATS = re.compile(r"(\d+) states generated, (\d+) distinct states found")


def tlc_stats(out):
    m = None
    for m in _STATS.finditer(out):
        pass
    if not m:
        return 0, 0
    return int(m.group(1)), int(m.group(2))


_PRINT = re.compile(r'^<<"([A-Z]+)", (.*)>>$')


def tlc_prints(out, tag):
    """Returns the payloads of PrintT(<<"TAG", x>>) lines; JSON strings are decoded."""
    res = []
    for line in out.splitlines():
        m = _PRINT.match(line.strip())
        if not m or m.group(1) != tag:
            continue
        body = m.group(2)
        if body.startswith('"'):
            # a TLA+ string holding JSON: undo TLC's escaping
            try:
                s = json.loads(body)
                res.append(json.loads(s))
                continue
            except Exception:
                pass
        res.append(body)
    return res


def tlc_ok(out):
    return "Model checking completed. No error has been found." in out or "Finished in" in out and "Error:" not in out


def tlc_error(out):
    errs = [l for l in out.splitlines() if l.startswith("Error:")]
    return errs


# ---------------------------------------------------------------------------- trace evaluation
def eval_traces(specdir, module, cfg, lines, shards=8, timeout=1800, extra_modules=None, trace_name="trace.ndjson"):
    """lines: list of JSON-serialisable trace records (each must have an 'id').
    Evaluates them with the trace spec `module` (which reads trace.ndjson and prints
    <<"VIOL", json>> per violating line and <<"DONE", n, nviol>> at the end).
    Returns (list of {id, viol:[...]}, lines consumed)."""
    if not lines:
        return [], 0
    shards = max(1, min(shards, (len(lines) + 49) // 50))
    parts = [lines[i::shards] for i in range(shards)]

    def run(part):
        wd = scratch("tr-")
        with open(os.path.join(wd, trace_name), "w") as f:
            for t in part:
                f.write(json.dumps(t, separators=(",", ":")) + "\n")
        rc, out, _ = tlc(specdir, module, cfg=cfg, workers=1, timeout=timeout, heap="3g", cwd=wd,
                         extra_modules=extra_modules)
        done = tlc_prints(out, "DONE")
        if not done:
            raise Inconclusive("trace evaluation by %s did not finish:\n%s" % (module, out[-3000:]))
        n = int(str(done[-1]).split(",")[0].strip())
        if n != len(part):
            raise Inconclusive("trace evaluation consumed %d of %d lines" % (n, len(part)))
        shutil.rmtree(wd, ignore_errors=True)
        return tlc_prints(out, "VIOL")

    viols = []
    with ThreadPoolExecutor(max_workers=shards) as ex:
        for v in ex.map(run, parts):
            viols.extend(v)
    # de-duplicate (TLC may evaluate an action twice)
    seen, res = set(), []
    for v in viols:
        k = json.dumps(v, sort_keys=True)
        if k not in seen:
            seen.add(k)
            res.append(v)
    return res, len(lines)


# ---------------------------------------------------------------------------- known findings
def load_known():
    p = os.path.join(VERIF, "known_findings.json")
    if not os.path.exists(p):
        return {"findings": [], "fixed": []}
    with open(p) as f:
        return json.load(f)


def split_known(prop, violations):
    """violations: list of dicts with a 'sig' key. Returns (known, new) where known is a
    list of (finding, [violations])."""
    kf = [f for f in load_known().get("findings", []) if f["property"] == prop]
    known, new = {}, []
    for v in violations:
        hit = None
        for f in kf:
            if re.fullmatch(f["signature"], v["sig"]):
                hit = f
                break
        if hit is None:
            new.append(v)
        else:
            known.setdefault(hit["signature"], (hit, []))[1].append(v)
    return list(known.values()), new


# ---------------------------------------------------------------------------- evidence / verdict
def write_evidence(prop, tier, level, coverage, wall_s, violations, assumptions):
    evdir = os.environ.get("VERIF_EVIDENCE_DIR") or os.path.join(VERIF, "evidence")  # override: development runs on changed trees
    os.makedirs(evdir, exist_ok=True)
    ev = {
        "property_id": prop,
        "tier": tier,
        "seed": seed(),
        "level": level,
        "coverage": coverage,
        "assumptions": assumptions,
        "wall_s": round(wall_s, 2),
        "violations": violations,
    }
    p = os.path.join(evdir, prop + ".json")
    tmp = p + ".tmp%d" % os.getpid()
    with open(tmp, "w") as f:
        json.dump(ev, f, indent=1, sort_keys=True)
        f.write("\n")
    os.replace(tmp, p)
    return p


def write_replay(prop, payload):
    d = os.path.join(VERIF, "replays", prop)
    os.makedirs(d, exist_ok=True)
    h = hashlib.sha256(json.dumps(payload, sort_keys=True).encode()).hexdigest()[:16]
    p = os.path.join(d, h + ".json")
    with open(p, "w") as f:
        json.dump(payload, f, indent=1, sort_keys=True)
    return p


def conclude(prop, tier, level, coverage, t0, violations, assumptions, replay_of):
    """violations: list of dicts with 'sig', 'what' and whatever replay_of needs.
    Prints KNOWN-FINDING / VIOLATION lines, writes evidence, returns the exit code."""
    known, new = split_known(prop, violations)
    for f, vs in known:
        print("KNOWN-FINDING: property=%s %s (%d occurrence(s) in this run)" % (prop, f["what"], len(vs)))
    coverage = dict(coverage)
    coverage["known_finding_occurrences"] = sum(len(vs) for _, vs in known)
    rc = 0
    if new:
        rc = 1
        shown = set()
        for v in new:
            if v["sig"] in shown and len(shown) >= 1:
                continue
            shown.add(v["sig"])
            path = write_replay(prop, replay_of(v))
            print("VIOLATION property=%s replay=%s" % (prop, path))
            print("  what: %s" % v.get("what", v["sig"]))
            if len(shown) >= 5:
                break
    write_evidence(prop, tier, level, coverage, time.time() - t0, len(new), assumptions)
    return rc


# ---------------------------------------------------------------------------- family cache
class FamilyRun:
    """Runs a family pipeline at most once per (family, tier, seed, repo tree, machinery)
    and shares the result between the checks of the family's properties."""

    def __init__(self, family, tier):
        self.family, self.tier = family, tier
        key = hashlib.sha256(("%s|%s|%d|%s|%s" % (family, tier, seed(), tree_hash(REPO), machinery_hash())).encode()).hexdigest()[:24]
        self.dir = os.path.join(VERIF, ".cache", family)
        os.makedirs(self.dir, exist_ok=True)
        self.path = os.path.join(self.dir, key + ".json")
        self.lock = os.path.join(self.dir, key + ".lock")

    def get(self, compute):
        if os.environ.get("VERIF_NOCACHE"):
            return compute()
        with open(self.lock, "w") as lf:
            fcntl.flock(lf, fcntl.LOCK_EX)
            if os.path.exists(self.path):
                try:
                    with open(self.path) as f:
                        r = json.load(f)
                    r["from_cache"] = True
                    return r
                except Exception:
                    pass
            r = compute()
            # keep the cache small: drop older entries of this family
            for fn in os.listdir(self.dir):
                if fn.endswith(".json"):
                    try:
                        os.remove(os.path.join(self.dir, fn))
                    except OSError:
                        pass
            tmp = self.path + ".tmp"
            with open(tmp, "w") as f:
                json.dump(r, f)
            os.replace(tmp, self.path)
            return r


_FRAME = re.compile(r"^\s+(/\S+\.go):\d+")


def fatal_in_code_under_test(output):
    """A harness process killed by the Go runtime (fatal error, unrecovered panic): returns a
    one-line description when the innermost non-runtime frame of the failing goroutine is in the
    code under test (a file of the repository that is not an injected harness file), else None."""
    m = re.search(r"^(fatal error: .*|panic: .*)$", output, re.M)
    if not m:
        return None
    tail = output[m.end():]
    g = re.search(r"^goroutine \d+ .*\[running\]:?.*$", tail, re.M)
    block = tail[g.end():] if g else tail
    block = block.split("\n\n", 1)[0]
    lines = block.splitlines()
    for i, ln in enumerate(lines):
        f = _FRAME.match(ln)
        if not f:
            continue
        path = f.group(1)
        if "/src/" in path and "/go" in path.split("/src/")[0] or "/pkg/mod/" in path:
            continue   # the Go runtime / standard library / third-party modules
        inside = path.startswith(os.path.realpath(REPO) + "/") or path.startswith(REPO + "/")
        harness = "/zz_" in path or "/internal/zzverif/" in path or path.endswith("/verif_on.go")
        if inside and harness and "stack overflow" in m.group(1):
            continue   # the stack ran out inside a hook: what matters is the recursion that filled it
        if inside and not harness:
            fn = lines[i - 1].strip().split("(")[0] if i else ""
            return "%s in %s (%s)" % (m.group(1)[:120], fn.rsplit("/", 1)[-1], os.path.relpath(path, REPO))
        return None
    return None


def run_harness(binary, testname, cases, wd, cpus=None, tag="", extra_env=None, timeout=3000, max_stalls=5):
    """Runs an overlay harness test over a list of cases (JSON lines in, JSON lines out).
    The harness exits 4 (controlled scheduler stalled) or 5 (free-running hang) after
    writing the trace of the case in flight; the run is then resumed after that case."""
    cases_path = os.path.join(wd, "cases%s.ndjson" % tag)
    with open(cases_path, "w") as f:
        for c in cases:
            f.write(json.dumps(c) + "\n")
    op = os.path.join(wd, "traces%s.ndjson" % tag)
    open(op, "w").close()
    resume = ""
    stalls = 0
    for attempt in range(80):
        env = dict(os.environ, VERIF_CASES=cases_path, VERIF_OUT=op, VERIF_RESUME_AFTER=resume)
        env.update(extra_env or {})
        if stalls >= max_stalls:
            # enough stalled schedules to decide; skip the remaining controlled cases
            env["VERIF_SKIP_CONTROLLED"] = "1"
        cmd = [binary, "-test.run", "^%s$" % testname, "-test.timeout", "%ds" % timeout]
        if cpus:
            cmd = ["taskset", "-c", "0-%d" % (cpus - 1)] + cmd
        p = subprocess.run(cmd, env=env, stdout=subprocess.PIPE, stderr=subprocess.STDOUT, text=True, cwd=wd)
        if p.returncode == 0:
            break
        if p.returncode in (4, 5):
            if p.returncode == 4:
                stalls += 1
            last = None
            with open(op) as f:
                for line in f:
                    last = line
            if last is None:
                raise Inconclusive("harness %s stalled before its first case:\n%s" % (testname, p.stdout[-2000:]))
            resume = json.loads(last)["id"].split(".")[0]
            continue
        crash = fatal_in_code_under_test(p.stdout)
        if crash:
            # the code under test killed the process: that is behaviour of the real code on a
            # harness input, reported as a trace of its own; the remaining cases are not run
            with open(op, "a") as f:
                f.write(json.dumps({"id": "process-crash", "crash": crash, "mode": "crash", "cfg": {}, "events": [],
                                    "output": p.stdout[-3000:]}) + "\n")
            break
        raise Inconclusive("harness %s failed (exit %d):\n%s" % (testname, p.returncode, p.stdout[-3000:]))
    else:
        raise Inconclusive("harness %s kept stalling" % testname)
    traces = []
    with open(op) as f:
        for line in f:
            traces.append(json.loads(line))
    return traces


def split_crashes(traces):
    """Separates the synthetic traces of processes killed inside the code under test."""
    return [t for t in traces if not t.get("crash")], [t for t in traces if t.get("crash")]


def eval_drift(specdir, module, cfg, lines, per_shard=40, max_shards=12):
    """Validates controlled traces against a design spec with a total trace spec that prints
    <<"DRIFT", json>> for every trace it cannot follow and <<"DONE", n, k>> at the end."""
    if not lines:
        return []
    shards = max(1, min(max_shards, (len(lines) + per_shard - 1) // per_shard))
    parts = [lines[i::shards] for i in range(shards)]

    def run(part):
        wd = scratch("trd-")
        with open(os.path.join(wd, "trace.ndjson"), "w") as f:
            for t in part:
                f.write(json.dumps(t, separators=(",", ":")) + "\n")
        rc, out, _ = tlc(specdir, module, cfg=cfg, workers=1, timeout=1800, heap="3g", cwd=wd)
        done = tlc_prints(out, "DONE")
        if not done or "Error:" in out:
            raise Inconclusive("trace validation by %s failed:\n%s" % (module, out[-2500:]))
        shutil.rmtree(wd, ignore_errors=True)
        return tlc_prints(out, "DRIFT")

    res = []
    with ThreadPoolExecutor(max_workers=shards) as ex:
        for r in ex.map(run, parts):
            res.extend(r)
    seen, out = set(), []
    for d in res:
        k = json.dumps(d, sort_keys=True)
        if k not in seen:
            seen.add(k)
            out.append(d)
    return out


def run_cmd(cmd, **kw):
    return subprocess.run(cmd, stdout=subprocess.PIPE, stderr=subprocess.STDOUT, text=True, **kw)
