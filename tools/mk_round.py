#!/usr/bin/env python3
"""usage: mk_round.py <root> <ID>...   -- one scratch worktree of /repo and one prompt file per property
under <root> for a round of sub-agent seeded changes. The prompt holds the property text only
(nothing from /verif) plus the names of the ideas already kept under seeded/. Give each agent
"Read <root>/<ID>.prompt.txt and carry out the task"; confirm with tools/seed_mutant.py; remove the
worktrees afterwards (git -C /repo worktree remove --force <root>/<ID>; git -C /repo worktree prune).
Careful: `rm -rf <root>/C*` also removes the prompt files and the agents' _out directories."""
import glob, json, os, subprocess, sys

root, ids = sys.argv[1], sys.argv[2:]
props = {}
for l in open('/verif/properties.jsonl'):
    d = json.loads(l)
    props[d['id']] = d
taken = {}
for m in glob.glob('/verif/seeded/*/meta.json') + glob.glob('/verif/seeded/_retired/*/meta.json'):
    d = json.load(open(m))
    taken.setdefault(d['property'], []).append(os.path.basename(os.path.dirname(m)))
os.makedirs(root, exist_ok=True)
for i in ids:
    p = props[i]
    wt = '%s/%s' % (root, i)
    subprocess.run(['git', '-C', '/repo', 'worktree', 'add', '--detach', wt, 'HEAD'], stdout=subprocess.DEVNULL, stderr=subprocess.DEVNULL, check=True)
    prompt = f'''You are helping test a verification framework for the Go project pgavlin/dawn (a Starlark-scripted build system). You work ONLY in your own scratch git worktree at {wt} (a checkout of the project at its current commit). Never touch /repo or /verif, never run `git stash` (the stash is shared between worktrees), and do not create other worktrees.

Environment for every shell call: export GOFLAGS=-mod=mod GOPROXY=off GOSUMDB=off GOTOOLCHAIN=local   (no network; nothing can be downloaded).

The property under test ({i}: {p['title']}):

  {p['statement']}

  Quantifier: {json.dumps(p['quantifier'])}
  Why the existing tests cannot settle it: {p['why_tests_cant']}
  Where it lives: {json.dumps(p['anchors'])}

Your task: produce TWO different, realistic changes to the project's source (not its tests) that each BREAK this property while the project still compiles (`go build ./... && go build -tags verif ./...`) and the whole existing test suite still passes (`go test -vet=off -count=1 ./...`). Realistic means: the kind of change a maintainer could plausibly make and a reviewer could plausibly accept - an optimisation, a refactoring, a "simplification", a bug fix that goes slightly wrong, a new feature with a missed interaction - not a deliberately planted `if x == 42`. Prefer changes that need a particular input, history, schedule or interaction of two features to show up, and that touch clauses or corners of the property that are easy to overlook. Do not remove or move the `verifYield(...)` hook calls in the source (they are inert without the `verif` build tag); keep each next to the statement it precedes.

These ideas were already used in earlier rounds - do NOT repeat them or close variants (names only): {", ".join(sorted(taken.get(i, [])))}.

For each change, write a demonstration: one new Go test file (in the package directory where it belongs) that PASSES on the unchanged code and FAILS with your change applied, using only the standard library and what the repository already imports. Confirm both yourself. Keep demos fast (seconds) and deterministic where possible; if the failure is probabilistic say so and make the demo repeat until the failure is practically certain.

Deliver, for change N in 1..2, a directory {wt}/_out/mutN/ containing:
  - patch.diff : `git diff` of the source change only (must apply to a clean checkout with `git apply`; do NOT include the demo test in it)
  - the demo test file (named *_demo_test.go)
  - notes.md : first line `# <short-kebab-case-name>: <one-line summary>` (name prefix by area, e.g. bd- build, fp- fingerprint, pk- pickle, rn- runner, mv- mvs, gl- glob, cf- config, ca- cache, df- diff, ev- events), then: what the change is, which clause of the property it breaks and why, what it needs in order to manifest, the package directory and `go test -run` regex of the demo, and the commands you ran with their outcome.
When you are done, restore the worktree to the unchanged commit (git checkout -- . ; remove your demo files from the tree) so that only _out/ is left untracked.

Also: if, while exploring, you find an input, history or schedule on which the UNCHANGED code already violates the property, describe it precisely (exact input and observed vs expected behaviour) under a heading "Unchanged code" in your final report and save any reproducer under {wt}/_out/head/ - that is as valuable as the changes.

Final report: for each change its name, one paragraph on what it does and what it needs, and the demo's package directory and test regex.'''
    open('%s/%s.prompt.txt' % (root, i), 'w').write(prompt)
    print(wt)
