"""Config family (C19): ConfigStore.tla is a register (write stores, load returns, rewrite is
idempotent); TLC enumerates the case structure (character class of every string position,
number of requirements, path form) and evaluates the register laws on every real
WriteConfigFile / LoadConfigFile / WriteConfigFile triple."""
import json
import os
import random
import time

import vlib
from vlib import Inconclusive

SPEC = os.path.join(vlib.VERIF, "specs", "config")


def pipeline(tier):
    t0 = time.time()
    quick = tier == "quick"
    sd = vlib.seed()
    wd = vlib.scratch("config-")
    res = {"family": "config", "tier": tier, "seed": sd}
    rc, out, _ = vlib.tlc(SPEC, "ConfigStore", cfg="ConfigGen.cfg", workers=1, timeout=900, heap="4g")
    gen, dist = vlib.tlc_stats(out)
    cases = [c for c in vlib.tlc_prints(out, "CASE") if isinstance(c, dict)]
    seen, uniq = set(), []
    for c in cases:
        k = json.dumps(c, sort_keys=True)
        if k not in seen:
            seen.add(k)
            uniq.append(c)
    if not uniq:
        raise Inconclusive("TLC generated no configuration cases:\n" + out[-1500:])
    res["design"] = {"ok": "No error has been found" in out, "distinct": dist, "generated": gen, "errors": vlib.tlc_error(out)[:3]}
    rnd = random.Random(sd)
    if quick:
        uniq = [c for c in uniq if rnd.randrange(6) == 0]
    res["cases"] = len(uniq)
    cpath = os.path.join(wd, "cases.ndjson")
    with open(cpath, "w") as f:
        for c in uniq:
            c["ignore"] = list(c["ignore"])
            f.write(json.dumps(c) + "\n")
    binary = vlib.build_test("internal/project", wd)
    opath = os.path.join(wd, "traces.ndjson")
    env = dict(os.environ, VERIF_CASES=cpath, VERIF_OUT=opath, VERIF_SEED=str(sd))
    p = vlib.run_cmd([binary, "-test.run", "^TestVerifConfig$", "-test.timeout", "3000s"], env=env, cwd=wd)
    if p.returncode != 0:
        raise Inconclusive("config harness failed (exit %d):\n%s" % (p.returncode, p.stdout[-3000:]))
    # the last clause: the real `dawn tidy` rewrites project files (package cmd/dawn)
    tbin = vlib.build_test("cmd/dawn", wd, name="dawncmd")
    p = vlib.run_cmd([tbin, "-test.run", "^TestVerifTidy$", "-test.timeout", "600s"], env=dict(os.environ, VERIF_OUT=opath), cwd=wd)
    if p.returncode != 0:
        raise Inconclusive("tidy harness failed (exit %d):\n%s" % (p.returncode, p.stdout[-3000:]))
    lines = [json.loads(l) for l in open(opath)]
    res["calls"] = sum(len(l["events"]) for l in lines)
    res["rewrites"] = sum(1 for l in lines for e in l["events"] if e["ev"] == "Rewrite")
    if not res["rewrites"]:
        raise Inconclusive("the tidy harness recorded nothing")
    res["distinct_configs"] = len({json.dumps(e["c"], sort_keys=True) for l in lines for e in l["events"] if e["ev"] == "RoundTrip"})
    by_id = {l["id"]: l for l in lines}
    viols, n = vlib.eval_traces(SPEC, "ConfigTraceP", "ConfigTraceP.cfg", lines, shards=8, timeout=1800)
    out = []
    for v in viols:
        for x in v["viol"]:
            e = by_id[v["id"]]["events"][x["at"] - 1]
            if e["ev"] == "Rewrite":
                out.append({"prop": "C19", "what": x["what"], "cls": {"name": "tidy", "nreq": 0}, "c": e["before"], "c2": e["after"],
                            "errs": [e["err"], "", ""], "id": v["id"]})
                continue
            out.append({"prop": "C19", "what": x["what"], "cls": e["cls"], "c": e["c"], "c2": e["c2"],
                        "errs": [e["werr"], e["lerr"], e["w2err"]], "id": v["id"]})
    res["violations"] = out
    res["samples"] = [lines[0]["events"][0], lines[-1]["events"][-1]]
    res["wall_s"] = time.time() - t0
    return res


def sig_of(v):
    c = v["cls"]
    return "C19|%s|name=%s,key=%s,path=%s" % (v["what"], c.get("name"), c.get("key") if c.get("nreq") else "-", c.get("path") if c.get("nreq") else "-")


def check(prop, tier):
    t0 = time.time()
    res = vlib.FamilyRun("config", tier).get(lambda: pipeline(tier))
    if not res["design"]["ok"]:
        raise Inconclusive("TLC rejects ConfigStore.tla: %s" % res["design"]["errors"])
    viols = [dict(v, sig=sig_of(v)) for v in res["violations"]]
    cov = {"project_files_rewritten_by_the_real_tidy_command": res.get("rewrites", 0), "evaluations": res["calls"], "distinct_nontrivial": res["distinct_configs"], "samples": res["samples"],
           "case_structures_from_tlc": res["cases"], "tlc_states": res["design"]["distinct"], "exhaustive": False,
           "rule": "TLC enumerates every combination of character classes (13 classes + the empty string) for the project name and the requirement names, ignore patterns, 0..2 requirements and 7 path forms; the harness instantiates each class with seeded concrete strings (quotes, backslashes, control characters, newlines, non-BMP Unicode); distinct = distinct concrete configurations",
           "family_wall_s": round(res["wall_s"], 1)}
    assumptions = ["domain as the property states: canonical semver versions, clean paths",
                   "the model is a register: TLC serves as case enumerator and trace evaluator here, not as a design checker"]
    return vlib.conclude(prop, tier, "exploration", cov, t0, viols, assumptions,
                         lambda v: {"family": "config", "property": prop, "violation": v})
