"""usage: round.py <root> confirm|run   -- confirm all mutants under <root>, or run the confirmed ones"""
import os, re, subprocess, sys, glob, json
from concurrent.futures import ThreadPoolExecutor
root, what = sys.argv[1], sys.argv[2]
pk={"dawn":".","dawn_test":".","runner":"runner","pickle":"pickle","mvs":"internal/mvs","project":"internal/project","label":"label","util":"util","diff":"diff","os":"lib/os","vcs":"internal/vcs","main":"cmd/dawn"}
state=os.path.join(root,"confirmed.json")
if what=="confirm":
    jobs=[]
    for d in sorted(glob.glob(root+'/C*/_out/mut*')):
        prop=d.split('/')[-3]
        demos=glob.glob(d+'/*_test.go')
        if not demos or not os.path.exists(d+'/patch.diff'): print("skip",d); continue
        demo=demos[0]; src=open(demo).read()
        pkg=re.search(r'^package (\w+)',src,re.M).group(1)
        tests=re.findall(r'^func (Test\w+)\(',src,re.M)
        title=open(d+'/notes.md').readline().strip('# \n') if os.path.exists(d+'/notes.md') else ''
        m=re.match(r'`?([a-z][a-z0-9]*(?:-[a-z0-9]+)+)`?',title)
        name=(m.group(1) if m else prop.lower()+'-'+d.split('/')[-1]+'-r7')
        if os.path.exists('/verif/seeded/'+name): name+='-r7'
        # package dir may be stated in notes
        pdir=pk.get(pkg,'.')
        jobs.append((name,prop,d,demo,pdir,'|'.join('^%s$'%t for t in tests),title))
    def run(j):
        name,prop,d,demo,pkg,rx,title=j
        p=subprocess.run(["python3","tools/seed_mutant.py",name,prop,d+"/patch.diff",demo,pkg,rx],cwd="/verif",stdout=subprocess.PIPE,stderr=subprocess.STDOUT,text=True)
        last=p.stdout.strip().splitlines()[-1] if p.stdout.strip() else ''
        return name,prop,p.returncode,last[:160],title[:90]
    with ThreadPoolExecutor(6) as ex: res=list(ex.map(run,jobs))
    for r in res: print(*r)
    json.dump([(r[0],r[1]) for r in res if r[2]==0],open(state,'w'))
else:
    conf=json.load(open(state))
    def run(j):
        name,prop=j
        p=subprocess.run(["timeout","1200","tools/run_mutant.sh",name,prop],cwd="/verif",stdout=subprocess.PIPE,stderr=subprocess.STDOUT,text=True)
        lines=[l for l in p.stdout.splitlines() if not l.startswith("DRIFT") and not l.startswith("KNOWN")]
        head=lines[0] if lines else "(no output rc=%d)"%p.returncode
        w=[l.strip() for l in lines if l.strip().startswith("what:")][:2]
        inc=[l for l in lines if "INCONCLUSIVE" in l][:1]
        return head+' | '+'; '.join(w)[:170]+' | '+(inc[0][:160] if inc else '')
    with ThreadPoolExecutor(int(sys.argv[3]) if len(sys.argv)>3 else 4) as ex:
        for r in ex.map(run,conf): print(r); sys.stdout.flush()
