"""Glob family (C17): TLC cross-checks the declarative and the automaton definition of
matching in Glob.tla on every (pattern, path) of the scope; the real util.CompileGlobs is
run on every singleton, pair and triple of patterns of the scope and on seeded longer
lists, and every real result is evaluated by the TLA+ monitor GlobMon."""
import json
import os
import time

import vlib
from vlib import Inconclusive

SPEC = os.path.join(vlib.VERIF, "specs", "glob")


def pipeline(tier):
    t0 = time.time()
    quick = tier == "quick"
    wd = vlib.scratch("glob-")
    res = {"family": "glob", "tier": tier, "seed": vlib.seed()}
    cfg = "SPECIFICATION Spec\nCONSTANTS\n  PLen = %d\n  SLen = %d\nINVARIANT Agree\nCHECK_DEADLOCK FALSE\n" % ((3, 4) if quick else (4, 4))
    rc, out, _ = vlib.tlc(SPEC, "GlobMC", cfg="run.cfg", workers=16, timeout=2400, heap="8g", files={"run.cfg": cfg})
    gen, dist = vlib.tlc_stats(out)
    res["design"] = {"ok": "No error has been found" in out, "distinct": dist, "generated": gen, "errors": vlib.tlc_error(out)[:3]}
    binary = vlib.build_test("util", wd)
    opath = os.path.join(wd, "traces.ndjson")
    env = dict(os.environ, VERIF_OUT=opath, VERIF_SEED=str(vlib.seed()), VERIF_GLOB_P1="3" if quick else "4", VERIF_GLOB_P2="2",
               VERIF_GLOB_P3="1", VERIF_GLOB_S="4", VERIF_GLOB_RANDOM="2000" if quick else "40000")
    p = vlib.run_cmd([binary, "-test.run", "^TestVerifGlob$", "-test.timeout", "3000s"], env=env, cwd=wd)
    if p.returncode != 0:
        raise Inconclusive("glob harness failed (exit %d):\n%s" % (p.returncode, p.stdout[-3000:]))
    b2 = vlib.build_test("", wd, name="dawn")
    p = vlib.run_cmd([b2, "-test.run", "^TestVerifGlobFS$", "-test.timeout", "3000s"],
                     env=dict(env, VERIF_GLOBFS_RANDOM="300" if quick else "5000"), cwd=wd)
    if p.returncode != 0:
        raise Inconclusive("glob() / ignore harness failed (exit %d):\n%s" % (p.returncode, p.stdout[-3000:]))
    lines = [json.loads(l) for l in open(opath)]
    res["glob_builtin_calls"] = sum(1 for l in lines for e in l["events"] if e["ev"] == "Glob")
    res["ignore_lists"] = sum(1 for l in lines for e in l["events"] if e["ev"] == "Ignore")
    res["pattern_lists"] = sum(len(l["events"]) for l in lines)
    res["matches"] = sum(len(e.get("results", [])) for l in lines for e in l["events"])
    res["panics"] = [e for l in lines for e in l["events"] if "panic" in e or str(e.get("err", "")).startswith("panic:")][:3]
    viols, n = vlib.eval_traces(SPEC, "GlobTraceP", "GlobTraceP.cfg",
                                [{"id": l["id"], "events": [{k: v for k, v in e.items() if k != "panic"} for e in l["events"]]} for l in lines],
                                shards=14, timeout=3000)
    out = []
    for v in viols:
        for x in v["viol"]:
            out.append({"prop": "C17", "what": x["what"], "x": x.get("x"), "id": v["id"]})
    for e in res["panics"]:
        out.append({"prop": "C17", "what": "glob code panicked", "x": e.get("pats") or [e.get("include"), e.get("exclude")], "id": ""})
    res["violations"] = out
    res["samples"] = [{"pats": e["pats"], "compiled": e["compiled"], "results": e["results"][:6]} for e in lines[2]["events"][:2]] + \
                     [e for l in lines[-3:] for e in l["events"][:1]]
    res["wall_s"] = time.time() - t0
    return res


def sig_of(v):
    x = v.get("x")
    npats = len(x[0]) if isinstance(x, list) and x and isinstance(x[0], list) else (len(x) if isinstance(x, list) else 0)
    return "C17|%s|npats=%s" % (v["what"], "1" if npats == 1 else ">=2")


def check(prop, tier):
    t0 = time.time()
    res = vlib.FamilyRun("glob", tier).get(lambda: pipeline(tier))
    if not res["design"]["ok"]:
        raise Inconclusive("TLC: the two definitions of matching in Glob.tla disagree: %s" % res["design"]["errors"])
    viols = [dict(v, sig=sig_of(v)) for v in res["violations"]]
    cov = {"states": res["design"]["distinct"], "transitions": res["design"]["generated"],
           "traces_validated_against_impl": res["matches"], "samples": res["samples"],
           "pattern_lists_compiled": res["pattern_lists"], "match_results_evaluated": res["matches"],
           "glob_builtin_calls": res["glob_builtin_calls"], "ignore_lists_loaded": res["ignore_lists"],
           "evaluations": res["matches"], "distinct_nontrivial": res["pattern_lists"], "exhaustive": True,
           "rule": "all single patterns up to length 3 (quick) / 4 (thorough), all pairs of patterns up to length 2 and all triples of length 1 over {a b / . * ? \\ +} x all paths up to length 4 (3 for lists) over {a b . /}, plus seeded longer lists; distinct = distinct pattern lists",
           "family_wall_s": round(res["wall_s"], 1)}
    assumptions = ["Go's regexp package is trusted", "unescaped brackets, newlines and the empty path are outside the glob alphabet"]
    return vlib.conclude(prop, tier, "model_checking", cov, t0, viols, assumptions,
                         lambda v: {"family": "glob", "property": prop, "violation": v})
