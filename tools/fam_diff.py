"""Diff family (C16): EditGraph.tla is the reference acceptor of edit scripts (walk in the
edit graph, recursively for nested replacements, mapping edits per key); TLC checks it is
satisfiable and side-sensitive on every pair of sequences in scope; the real diff.Diff runs
on every enumerated pair and the TLA+ monitor decides empty-iff-equal, the order of the
sides, acceptance of the script, mapping edits, and the parts named as changed."""
import itertools
import json
import os
import random
import time

import vlib
from vlib import Inconclusive

SPEC = os.path.join(vlib.VERIF, "specs", "diff")


def pipeline(tier):
    t0 = time.time()
    quick = tier == "quick"
    wd = vlib.scratch("diff-")
    res = {"family": "diff", "tier": tier, "seed": vlib.seed()}
    cfg = "SPECIFICATION Spec\nCONSTANT MaxLen = %d\nINVARIANTS Sat Sides\nCHECK_DEADLOCK FALSE\n" % (4 if quick else 5)
    rc, out, _ = vlib.tlc(SPEC, "DiffMC", cfg="run.cfg", workers=16, timeout=2400, heap="8g", files={"run.cfg": cfg})
    gen, dist = vlib.tlc_stats(out)
    res["design"] = {"ok": "No error has been found" in out, "distinct": dist, "generated": gen, "errors": vlib.tlc_error(out)[:3]}
    binary = vlib.build_test("diff", wd)
    opath = os.path.join(wd, "traces.ndjson")
    env = dict(os.environ, VERIF_OUT=opath, VERIF_SEED=str(vlib.seed()), VERIF_DIFF_LEN="3" if quick else "4",
               VERIF_DIFF_RANDOM="3000" if quick else "40000")
    p = vlib.run_cmd([binary, "-test.run", "^TestVerifDiff$", "-test.timeout", "3000s"], env=env, cwd=wd)
    if p.returncode != 0:
        raise Inconclusive("diff harness failed (exit %d):\n%s" % (p.returncode, p.stdout[-3000:]))
    lines = [json.loads(l) for l in open(opath)]
    # the rebuild reason (function.go diffEnv): every subset of the nine environment parts differing
    # by a changed value, and a seeded sample (thorough: all) of the vectors that also add / remove parts
    rnd = random.Random(vlib.seed())
    vecs = [list(v) for v in itertools.product(["same", "changed"], repeat=9)]
    full = itertools.product(["same", "changed", "added", "removed"], repeat=9)
    vecs += [list(v) for v in full if quick is False or rnd.random() < 0.012]
    # parts that hold equal values written differently (1 and 1.0), alone and next to changed parts
    vecs += [list(v) for v in itertools.product(["same", "changed", "rewritten"], repeat=9)
             if "rewritten" in v and (quick is False or rnd.random() < 0.08)]
    rcases = os.path.join(wd, "reason-cases.ndjson")
    with open(rcases, "w") as f:
        for i, v in enumerate(vecs):
            f.write(json.dumps({"id": "r%d" % i, "classes": v, "flavor": rnd.randrange(8)}) + "\n")
    rbin = vlib.build_test("", wd, name="dawn")
    ropath = os.path.join(wd, "reason-traces.ndjson")
    open(ropath, "w").close()
    p = vlib.run_cmd([rbin, "-test.run", "^TestVerifReason$", "-test.timeout", "3000s"],
                     env=dict(os.environ, VERIF_OUT=ropath, VERIF_CASES=rcases), cwd=wd)
    if p.returncode != 0:
        raise Inconclusive("reason harness failed (exit %d):\n%s" % (p.returncode, p.stdout[-3000:]))
    rlines = [json.loads(l) for l in open(ropath)]
    res["reason_cases"] = sum(1 for l in rlines for e in l["events"] if e["ev"] == "Reason")
    res["real_function_pairs"] = sum(1 for l in rlines for e in l["events"] if e["ev"] == "RealReason")
    if res["real_function_pairs"] < 20:
        raise Inconclusive("reason harness compared only %d pairs of real functions" % res["real_function_pairs"])
    if res["reason_cases"] != len(vecs):
        raise Inconclusive("reason harness answered %d of %d cases" % (res["reason_cases"], len(vecs)))
    lines += rlines
    res["calls"] = sum(len(l["events"]) for l in lines)
    res["distinct_pairs"] = len({json.dumps([e["old"], e["new"]], sort_keys=True) for l in lines for e in l["events"] if e["ev"] == "Diff"})
    by_id = {l["id"]: l for l in lines}
    viols, n = vlib.eval_traces(SPEC, "DiffTraceP", "DiffTraceP.cfg", lines, shards=14, timeout=3000)
    out = []
    for v in viols:
        for x in v["viol"]:
            e = by_id[v["id"]]["events"][x["at"] - 1]
            if e["ev"] in ("Reason", "RealReason"):
                out.append({"prop": "C16", "what": x["what"], "id": v["id"], "reason": e})
                continue
            out.append({"prop": "C16", "what": x["what"], "id": v["id"], "old": e["old"], "new": e["new"], "res": e["res"]})
    res["violations"] = out
    e = lines[len(lines) // 2]["events"][3]
    res["samples"] = [{"old": e["old"], "new": e["new"], "res": e["res"]}]
    res["wall_s"] = time.time() - t0
    return res


def size(v):
    return len(v.get("v", "")) if v.get("t") in ("str", "bytes") else len(v.get("items", []))


def sig_of(v):
    if "reason" in v and "classes" not in v["reason"]:
        return "C16|%s|functions %s" % (v["what"], v["reason"].get("name"))
    if "reason" in v:
        return "C16|%s|%d parts differ" % (v["what"], sum(1 for c in v["reason"]["classes"] if c != "same"))
    o, n = v["old"], v["new"]
    rel = "shorter" if size(o) < size(n) else ("equal" if size(o) == size(n) else "longer")
    return "C16|%s|%s,%s|old %s than new" % (v["what"], o.get("t"), n.get("t"), rel)


def check(prop, tier):
    t0 = time.time()
    res = vlib.FamilyRun("diff", tier).get(lambda: pipeline(tier))
    if not res["design"]["ok"]:
        raise Inconclusive("TLC rejects the acceptor EditGraph.tla: %s" % res["design"]["errors"])
    viols = [dict(v, sig=sig_of(v)) for v in res["violations"]]
    cov = {"states": res["design"]["distinct"], "transitions": res["design"]["generated"],
           "traces_validated_against_impl": res["calls"], "samples": res["samples"],
           "evaluations": res["calls"], "rebuild_reason_cases": res.get("reason_cases", 0), "rebuild_reasons_on_pairs_of_real_functions": res.get("real_function_pairs", 0), "distinct_nontrivial": res["distinct_pairs"], "exhaustive": True,
           "rule": "all pairs of strings, bytes, tuples and lists over {a,b,c} of length 0..3 (quick) / 0..4 (thorough), nested and mixed-kind variants, dicts over <=3 keys, seeded random longer sequences; distinct = distinct (old, new) pairs",
           "family_wall_s": round(res["wall_s"], 1)}
    assumptions = ["Starlark equality is structural equality on the value classes enumerated (no floats)"]
    return vlib.conclude(prop, tier, "model_checking", cov, t0, viols, assumptions,
                         lambda v: {"family": "diff", "property": prop, "violation": v})
