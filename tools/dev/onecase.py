import sys, json, os
sys.path.insert(0,'/verif/tools')
import vlib, fam_build as fb
shape=sys.argv[1]; steps=json.loads(sys.argv[2])
case={"id":"one-0","seed":1,"shape":fb.SHAPES[shape],"steps":steps}
if shape in fb.RESHAPE: case["shape2"]=fb.RESHAPE[shape]
wd=vlib.scratch("one-")
binary=vlib.build_test("",wd,name="dawn")
open(os.path.join(wd,"cases.ndjson"),"w").write(json.dumps(case)+"\n")
env=dict(os.environ,VERIF_CASES=os.path.join(wd,"cases.ndjson"),VERIF_OUT=os.path.join(wd,"traces.ndjson"))
open(env["VERIF_OUT"],"w").close()
p=vlib.run_cmd([binary,"-test.run","^TestVerifBuild$","-test.timeout","600s"],env=env,cwd=wd)
print(p.returncode, p.stdout[-500:])
traces=[json.loads(l) for l in open(env["VERIF_OUT"])]
for t in traces:
    for e in t["events"]:
        print(json.dumps(e)[:220])
viols,n=vlib.eval_traces(fb.SPEC,"BuildTraceP","BuildTraceP.cfg",[fb.to_p_line(t) for t in traces],shards=1)
print(viols)
