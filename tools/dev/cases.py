import sys, json, os, collections
sys.path.insert(0,'/verif/tools')
import vlib, fam_build as fb
pref=sys.argv[1]
cases=[c for c in fb.harness_cases("quick",int(os.environ.get("VERIF_SEED","1"))) if c["id"].startswith(pref) and (sys.argv[2]=="-" or c["shape"]==fb.SHAPES[sys.argv[2]])]
print(len(cases))
wd=vlib.scratch("one-")
binary=vlib.build_test("",wd,name="dawn")
open(os.path.join(wd,"cases.ndjson"),"w").write("".join(json.dumps(c)+"\n" for c in cases))
env=dict(os.environ,VERIF_CASES=os.path.join(wd,"cases.ndjson"),VERIF_OUT=os.path.join(wd,"traces.ndjson"))
open(env["VERIF_OUT"],"w").close()
p=vlib.run_cmd([binary,"-test.run","^TestVerifBuild$","-test.timeout","600s"],env=env,cwd=wd)
print(p.returncode, p.stdout[-300:])
traces=[json.loads(l) for l in open(env["VERIF_OUT"])]
viols,n=vlib.eval_traces(fb.SPEC,"BuildTraceP","BuildTraceP.cfg",[fb.to_p_line(t) for t in traces],shards=1)
print(viols)
if len(sys.argv)>3:
    for e in traces[int(sys.argv[3])]["events"]: print(json.dumps(e)[:200])
