import json, subprocess, sys, os
from concurrent.futures import ThreadPoolExecutor
conf=json.load(open('/tmp/mut6/confirmed.json'))
ren={"c08-mut1-r6":"fp-params-shape-only","c08-mut2-r6":"pk-wide-int-formats-int64","c09-mut1-r6":"rn-signal-on-empty-only","c15-mut1-r6":"pk-checkvalue-dict-cycle","c15-mut2-r6":"bd-cutstamp-nil-oldenv"}
conf=[(ren.get(n,n),p) for n,p in conf]+[("rn-gate-lockfree-fastpath","C09")]
def run(j):
    name,prop=j
    p=subprocess.run(["timeout","1500","tools/run_mutant.sh",name,prop],cwd="/verif",stdout=subprocess.PIPE,stderr=subprocess.STDOUT,text=True)
    lines=[l for l in p.stdout.splitlines() if not l.startswith("DRIFT") and not l.startswith("KNOWN")]
    w=sorted({l.strip()[6:] for l in lines if l.strip().startswith("what:")})
    rc=[l for l in lines if l.startswith("== ")]
    ok = any("rc=1" in l for l in rc) and w
    mp='/verif/seeded/%s/meta.json'%name
    m=json.load(open(mp))
    m["detected_by"]=[{"check":"./check %s quick"%prop,"violation":w[:4]}] if ok else []
    json.dump(m,open(mp,'w'),indent=1)
    return "%s %s %s | %s"%(name,prop,"DETECTED" if ok else "MISSED "+(rc[0] if rc else "norc"), "; ".join(w)[:150])
with ThreadPoolExecutor(3) as ex:
    for r in ex.map(run,conf): print(r); sys.stdout.flush()
