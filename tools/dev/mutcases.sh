#!/bin/bash
# usage: mutcases.sh <mutant> <prefix> [shape]
n=$1; rm -rf /tmp/mutrepo-mc-$n; cp -r /repo /tmp/mutrepo-mc-$n; git -C /tmp/mutrepo-mc-$n apply /verif/seeded/$n/patch.diff || exit 3
VERIF_REPO=/tmp/mutrepo-mc-$n timeout 900 python3 /verif/tools/dev/cases.py $2 ${3:--} 2>&1 | tail -4 | cut -c1-1500
rm -rf /tmp/mutrepo-mc-$n
