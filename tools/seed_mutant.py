#!/usr/bin/env python3
"""Development-time tool (not a registered check): confirm a breaking change in a scratch
worktree of /repo and store it under /verif/seeded/<name>/.
usage: seed_mutant.py <name> <property> <patch.diff> <demo_test.go> <pkgdir> <run-regex> [needs...]"""
import json, os, shutil, subprocess, sys, time
name, prop, patch, demo, pkgdir, runre = sys.argv[1:7]
needs = " ".join(sys.argv[7:])
env = dict(os.environ, GOFLAGS="-mod=mod", GOPROXY="off", GOSUMDB="off", GOTOOLCHAIN="local")
wt = "/tmp/mutck-" + name
subprocess.run(["git", "-C", "/repo", "worktree", "remove", "--force", wt], capture_output=True)
subprocess.check_call(["git", "-C", "/repo", "worktree", "add", "-q", "--detach", wt, "HEAD"])
ran = []
def sh(cmd, timeout=900):
    t0 = time.time()
    try:
        p = subprocess.run(cmd, shell=True, cwd=wt, env=env, stdout=subprocess.PIPE, stderr=subprocess.STDOUT, text=True, timeout=timeout)
        rc, out = p.returncode, p.stdout
    except subprocess.TimeoutExpired as e:
        rc, out = 124, (e.stdout or b"").decode() if isinstance(e.stdout, bytes) else (e.stdout or "")
    ran.append({"cmd": cmd, "rc": rc, "s": round(time.time() - t0, 1)})
    return rc, out
try:
    shutil.copy(demo, os.path.join(wt, pkgdir, "zz_demo_" + os.path.basename(demo)))
    tags = os.environ.get("DEMO_TAGS", "")
    democmd = "go test -vet=off -count=1 -timeout 600s %s-run '%s' ./%s" % ("-tags %s " % tags if tags else "", runre, pkgdir)
    rc0, out0 = sh(democmd)
    assert rc0 == 0, "demo does not pass on the unchanged tree:\n" + out0[-2000:]
    rc, out = sh("git apply %s" % os.path.abspath(patch)); assert rc == 0, out
    rc, out = sh("go build ./... && go build -tags verif ./..."); assert rc == 0, "does not build:\n" + out[-2000:]
    # the demo file itself is part of ./... ; exclude its failures by running the suite without it
    os.rename(os.path.join(wt, pkgdir, "zz_demo_" + os.path.basename(demo)), "/tmp/zz_demo_hold_%s.go" % name)
    rc, out = sh("go test -vet=off -count=1 -timeout 25m ./...")
    assert rc == 0, "existing suite fails with the change:\n" + out[-3000:]
    os.rename("/tmp/zz_demo_hold_%s.go" % name, os.path.join(wt, pkgdir, "zz_demo_" + os.path.basename(demo)))
    rc1, out1 = sh(democmd)
    assert rc1 != 0, "demo does not fail with the change"
    d = os.path.join("/verif/seeded", name)
    os.makedirs(d, exist_ok=True)
    shutil.copy(patch, os.path.join(d, "patch.diff"))
    shutil.copy(demo, os.path.join(d, os.path.basename(demo)))
    notes = os.path.join(os.path.dirname(patch), "notes.md")
    if os.path.exists(notes):
        shutil.copy(notes, os.path.join(d, "notes.md"))
    meta = {"property": prop, "needs": needs, "demo": {"file": os.path.basename(demo), "package_dir": pkgdir, "cmd": democmd},
            "confirmed": {"suite_passes_with_change": True, "demo_passes_without": True, "demo_fails_with": True, "commands": ran},
            "repo_head": subprocess.check_output(["git", "-C", "/repo", "rev-parse", "HEAD"], text=True).strip(),
            "detected_by": []}
    json.dump(meta, open(os.path.join(d, "meta.json"), "w"), indent=1)
    print("CONFIRMED", name)
except AssertionError as e:
    print("NOT CONFIRMED", name, e)
    sys.exit(1)
finally:
    subprocess.run(["git", "-C", "/repo", "worktree", "remove", "--force", wt], capture_output=True)
    shutil.rmtree(wt, ignore_errors=True)
