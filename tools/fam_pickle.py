"""Pickle family (C07 round trip, C15 decoding arbitrary bytes): TLC checks the codec model
Pickle.tla exhaustively on small scopes (all heaps, all op strings) and generates those
scopes as cases; the real Encode/Decode run on every generated case and on the harness's
boundary / scaled / corrupted inputs; every real call is evaluated by the TLA+ monitor
(which runs the reference decoder on the real encoder's output)."""
import json
import os
import random
import subprocess
import time
from concurrent.futures import ThreadPoolExecutor

import vlib
from vlib import Inconclusive

SPEC = os.path.join(vlib.VERIF, "specs", "pickle")
# whether the model's encoder pushes the container again between batches (the defect found in
# the original encoder) or not (the repaired encoder)
REPUSH = os.environ.get("VERIF_PICKLE_REPUSH", "FALSE")


def mc(mode, n, k, l, repush, gen=False, timeout=2400):
    cfg = ("SPECIFICATION Spec\nCONSTANTS\n  N = %d\n  K = %d\n  L = %d\n  Mode = \"%s\"\n  Repush = %s\n  HostCycles = \"none\"\nINVARIANT %s\nCHECK_DEADLOCK FALSE\n"
           % (n, k, l, mode, repush, "GenInv" if gen else "Inv"))
    module = "PickleGen" if gen else "PickleMC"
    rc, out, wd = vlib.tlc(SPEC, module, cfg="run.cfg", workers=1 if gen else 16, timeout=timeout, heap="10g", files={"run.cfg": cfg})
    gen_, dist = vlib.tlc_stats(out)
    ok = "Model checking completed. No error has been found." in out
    return ok, dist, out


def pipeline(tier):
    t0 = time.time()
    sd = vlib.seed()
    quick = tier == "quick"
    wd = vlib.scratch("pickle-")
    res = {"family": "pickle", "tier": tier, "seed": sd, "repush": REPUSH}
    with ThreadPoolExecutor(max_workers=4) as ex:
        f_heaps = ex.submit(mc, "heaps", 2, 3, 0, REPUSH)
        f_heaps3 = ex.submit(mc, "heaps", 3, 2, 0, REPUSH) if not quick else None
        f_ops = ex.submit(mc, "ops", 2, 2, 4 if quick else 5, REPUSH)
        f_gh = ex.submit(mc, "heaps", 2, 2, 0, REPUSH, True)
        f_go = ex.submit(mc, "ops", 2, 2, 3 if quick else 4, REPUSH, True)
        ok_h, st_h, out_h = f_heaps.result()
        if f_heaps3 is not None:
            ok3, st3, out3 = f_heaps3.result()
            ok_h, st_h, out_h = ok_h and ok3, st_h + st3, out_h + out3
        ok_o, st_o, out_o = f_ops.result()
        _, _, out_gh = f_gh.result()
        _, _, out_go = f_go.result()
    res["design"] = {"ok": ok_h and ok_o, "heaps_ok": ok_h, "ops_ok": ok_o, "heaps_states": st_h, "ops_states": st_o,
                     "errors": (vlib.tlc_error(out_h) + vlib.tlc_error(out_o))[:4]}
    cases = [c for c in vlib.tlc_prints(out_gh, "CASE") + vlib.tlc_prints(out_go, "CASE") if isinstance(c, dict)]
    if not cases:
        raise Inconclusive("TLC generated no pickle cases:\n" + out_gh[-1500:])
    if quick:
        # every case is checked in the model; a seeded third of the heaps is replayed on the real codec
        rnd = random.Random(sd)
        cases = [c for c in cases if c.get("mode") != "heaps" or rnd.randrange(3) == 0]
    res["model_cases"] = len(cases)
    cpath = os.path.join(wd, "cases.ndjson")
    with open(cpath, "w") as f:
        for c in cases:
            f.write(json.dumps(c) + "\n")
    binary = vlib.build_test("pickle", wd)
    opath = os.path.join(wd, "traces.ndjson")
    env = dict(os.environ, VERIF_CASES=cpath, VERIF_OUT=opath, VERIF_TIER=tier, VERIF_SEED=str(sd))
    p = vlib.run_cmd([binary, "-test.run", "^TestVerifPickle$", "-test.timeout", "3000s"], env=env, cwd=wd)
    crashed = None
    if p.returncode != 0:
        # a fatal error inside the codec itself (stack overflow) kills the harness: that is behaviour
        # of the real code on a harness input, not a tool failure
        o = p.stdout
        if ("fatal error: stack overflow" in o or "goroutine stack exceeds" in o) and ("pickle.(*Encoder)" in o or "pickle.(*Decoder)" in o):
            crashed = "the codec crashed the process with a stack overflow in " + ("Encode" if "pickle.(*Encoder)" in o else "Decode")
        else:
            raise Inconclusive("pickle harness failed (exit %d):\n%s" % (p.returncode, p.stdout[-3000:]))
    lines = [json.loads(l) for l in open(opath)]
    res["n_lines"] = len(lines)
    kinds = {}
    unbuildable = 0
    for l in lines:
        for e in l["events"]:
            kinds[e["ev"]] = kinds.get(e["ev"], 0) + 1
    res["calls"] = kinds
    by_id = {l["id"]: l for l in lines}
    cfgtxt = "SPECIFICATION Spec\nCONSTANTS\n  Repush = FALSE\n  HostCycles = \"none\"\nINVARIANT Done\nCHECK_DEADLOCK FALSE\n"
    with open(os.path.join(wd, "PickleTraceP.cfg"), "w") as f:
        f.write(cfgtxt)
    viols, n = vlib.eval_traces(SPEC, "PickleTraceP", os.path.join(wd, "PickleTraceP.cfg"),
                                [{"id": l["id"], "events": [{k: v for k, v in e.items() if k not in ("hex", "msg", "shape")} for e in l["events"]]} for l in lines],
                                shards=14, timeout=3000)
    out = []
    for v in viols:
        l = by_id[v["id"]]
        for x in v["viol"]:
            e = l["events"][x["at"] - 1]
            out.append({"prop": x["prop"], "what": x["what"], "id": v["id"], "at": x["at"], "event": summarise(e)})
    if crashed:
        last = lines[-1]["events"][-1] if lines else {"ev": "none"}
        out.append({"prop": "C07" if "Encode" in crashed else "C15", "what": crashed, "id": "crash", "at": 0,
                    "event": {"ev": "Crash", "after": summarise(last) if last.get("ev") in ("RoundTrip", "Decode") else {}}})
    res["violations"] = out
    res["samples"] = [summarise(lines[0]["events"][0]), summarise(lines[-1]["events"][-1])]
    res["distinct_values"] = len({json.dumps(e.get("v"), sort_keys=True) for l in lines for e in l["events"] if e["ev"] == "RoundTrip"})
    res["distinct_byte_strings"] = len({e.get("hex", "") + str(len(e.get("ops", []))) for l in lines for e in l["events"] if e["ev"] == "Decode"})
    res["wall_s"] = time.time() - t0
    return res


def shape_of(v, depth=0):
    """A short description of a canonical value: type/size skeleton."""
    if not isinstance(v, dict):
        return "?"
    t = v.get("t")
    if t in ("list", "dict", "set", "tuple", "host"):
        items = v.get("items", [])
        inner = ",".join(shape_of(x, depth + 1) for x in items[:3]) if depth < 2 else ""
        return "%s%d[%s%s]" % (t, len(items), inner, ",.." if len(items) > 3 else "")
    if t == "int":
        n = len(v.get("v", "").lstrip("-"))
        return "int(%s)" % (v.get("v") if n <= 6 else "%d digits" % n)
    if t in ("str", "bytes"):
        return "%s%d" % (t, len(v.get("v", "")))
    return str(t)


def summarise(e):
    if e["ev"] == "RoundTrip":
        return {"ev": "RoundTrip", "value": shape_of(e["v"]), "n_ops": len(e["ops"]), "enc": e["enc"][:80], "dec": e["dec"][:80],
                "decoded": shape_of(e["w"]) if isinstance(e.get("w"), dict) else None}
    if e["ev"] == "Decode":
        d = {"ev": "Decode", "hex": e.get("hex"), "outcome": e["outcome"], "unpickler": e["unpickler"], "ops": [o["op"] for o in e["ops"][:12]]}
        if e.get("shape"):
            d["shape"] = e["shape"]
        return d
    return {k: v for k, v in e.items() if k != "dump"}


def sig_of(v):
    ev = v["event"]
    if ev["ev"] == "Crash":
        return "%s|%s" % (v["prop"], v["what"])
    if ev["ev"] == "RoundTrip":
        return "%s|%s|%s" % (v["prop"], v["what"], ev["value"])
    if ev.get("shape"):
        return "%s|%s|%s" % (v["prop"], v["what"], ev["shape"].split(",")[0])
    return "%s|%s|%s" % (v["prop"], v["what"], ev.get("hex", ""))


def check(prop, tier):
    t0 = time.time()
    res = vlib.FamilyRun("pickle", tier).get(lambda: pipeline(tier))
    if not res["design"]["ok"]:
        raise Inconclusive("TLC rejects the codec model Pickle.tla (Repush=%s): %s" % (res["repush"], res["design"]["errors"]))
    viols = [dict(v, sig=sig_of(v)) for v in res["violations"] if v["prop"] == prop]
    records = 0
    if prop == "C15":
        # the on-disk half: corrupted record files, exercised by the fingerprint harness
        import fam_fp
        res2 = vlib.FamilyRun("fp", tier).get(lambda: fam_fp.pipeline(tier))
        records = res2["calls"].get("Record", 0)
        for v in res2["violations"]:
            if v["prop"] == "C15":
                viols.append(dict(v, sig="C15|%s|%s" % (v["what"], v["event"].get("kind"))))
    if prop == "C07":
        n = res["calls"].get("RoundTrip", 0)
        distinct = res["distinct_values"]
        rule = "every heap of the model's scope (2 nodes x <=2 kids, all types and aliasing patterns) built as a real Starlark value, plus boundary integers, string/bytes length classes, containers of 0..2001 elements at 11 nesting positions, shared and self-referential containers, random nested values; distinct = distinct canonical values"
    else:
        n = res["calls"].get("Decode", 0)
        distinct = res["distinct_byte_strings"]
        rule = "every op string of the model's scope serialised and decoded with and without an unpickler, byte-level mutations (bit flips, truncations, splices, opcode insertions) of real encodings, random byte strings; declared lengths beyond the input are skipped; distinct = distinct byte strings"
    cov = {
        "states": res["design"]["heaps_states"] + res["design"]["ops_states"], "transitions": res["design"]["heaps_states"] + res["design"]["ops_states"],
        "traces_validated_against_impl": n, "samples": res["samples"],
        "model_scopes": {"heaps_checked": res["design"]["heaps_states"], "op_strings_checked": res["design"]["ops_states"]},
        "model_cases_executed_on_real_codec": res["model_cases"], "real_calls": res["calls"],
        "evaluations": n, "distinct_nontrivial": distinct, "rule": rule, "exhaustive": False,
        "corrupted_record_files_loaded_and_built": records,
        "family_wall_s": round(res["wall_s"], 1),
    }
    assumptions = ["the Starlark value implementation (equality, hashing) is trusted", "declared lengths are bounded by the input size",
                   "the harness's byte-stream lexer is an independent re-implementation of the wire format"]
    return vlib.conclude(prop, tier, "model_checking", cov, t0, viols, assumptions,
                         lambda v: {"family": "pickle", "property": prop, "violation": {k: x for k, x in v.items() if k != "sig"}})
