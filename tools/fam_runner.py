"""Runner family (C04, C05, C09): design check of Runner (x) RunnerMon with TLC, schedule
generation by TLC, execution on the real runner under the controlled scheduler / random /
PCT / stress, evaluation of every real trace by the TLA+ monitor, trace validation of
controlled traces against the design spec."""
import itertools
import json
import os
import random
import subprocess
import time

import vlib
from vlib import Inconclusive

SPEC = os.path.join(vlib.VERIF, "specs", "runner")
LABELS = "abcdefghijklmnop"


# ---------------------------------------------------------------------------- graphs
def tla_str_seq(xs):
    return "<<" + ", ".join('"%s"' % x for x in xs) + ">>"


def cfg_to_tla(c):
    deps = ", ".join("%s |-> %s" % (l, tla_str_seq(ds)) for l, ds in sorted(c["deps"].items()))
    return "[deps |-> [%s], unknown |-> %s, failing |-> %s, root |-> \"%s\", limit |-> %d]" % (
        deps, tla_str_seq(c["unknown"]), tla_str_seq(c["failing"]), c["root"], c["limit"])


def canonical_small_graphs(n):
    """All digraphs on n labels (self-loops allowed) in which every label is reachable from
    'a', one representative per isomorphism class fixing 'a'. Dependency lists sorted."""
    labels = list(LABELS[:n])
    seen, res = set(), []
    pairs = [(x, y) for x in labels for y in labels]
    for bits in range(1 << len(pairs)):
        edges = {p for i, p in enumerate(pairs) if bits >> i & 1}
        # reachability
        reach, frontier = {"a"}, ["a"]
        while frontier:
            x = frontier.pop()
            for (u, v) in edges:
                if u == x and v not in reach:
                    reach.add(v)
                    frontier.append(v)
        if len(reach) != n:
            continue
        best = None
        for perm in itertools.permutations(labels[1:]):
            m = dict(zip(labels[1:], perm))
            m["a"] = "a"
            key = tuple(sorted((m[u], m[v]) for (u, v) in edges))
            if best is None or key < best:
                best = key
        if best in seen:
            continue
        seen.add(best)
        deps = {l: sorted(v for (u, v) in best if u == l) for l in labels}
        res.append(deps)
    return res


def mk(deps, root="a", limit=2, unknown=(), failing=()):
    return {"deps": {k: list(v) for k, v in deps.items()}, "unknown": sorted(unknown), "failing": sorted(failing),
            "root": root, "limit": limit}


def is_cyclic(c):
    deps, unk = c["deps"], set(c["unknown"])
    succ = lambda l: [] if l in unk else [d for d in deps.get(l, []) if d in deps]
    reach, fr = {c["root"]}, [c["root"]]
    while fr:
        x = fr.pop()
        for y in succ(x):
            if y not in reach:
                reach.add(y)
                fr.append(y)
    for s in reach:
        seen, fr = set(), list(succ(s))
        while fr:
            x = fr.pop()
            if x == s:
                return True
            if x not in seen:
                seen.add(x)
                fr.extend(succ(x))
    return False


CURATED4 = [
    # diamond, diamond closed into a cycle, dense cyclic, shared subgraph, two overlapping cycles
    {"a": ["b", "c"], "b": ["d"], "c": ["d"], "d": []},
    {"a": ["b", "c"], "b": ["d"], "c": ["d"], "d": ["a"]},
    {"a": ["b"], "b": ["c", "d"], "c": ["b"], "d": ["c"]},
    {"a": ["b", "c", "d"], "b": ["c"], "c": ["d"], "d": []},
    {"a": ["b", "c"], "b": ["c"], "c": ["b", "d"], "d": ["c"]},
    {"a": ["d", "c", "b"], "b": [], "c": ["b"], "d": ["c", "b"]},
]


def design_cfgs(tier, rnd):
    """Configurations for the exhaustive D (x) P check."""
    cfgs = []
    g12 = canonical_small_graphs(1) + canonical_small_graphs(2)
    g3 = canonical_small_graphs(3)
    for deps in g12:
        for limit in (1, 2):
            cfgs.append(mk(deps, limit=limit))
    # unknown / failing variants on 2 labels
    for deps in canonical_small_graphs(2):
        cfgs.append(mk(deps, limit=1, failing=["b"]))
        cfgs.append(mk({**deps, "b": []}, limit=1, unknown=["b"]))
    if tier == "quick":
        pick = rnd.sample(g3, 24)
    else:
        pick = g3
    for i, deps in enumerate(pick):
        limit = 1 + (i % 3)
        cfgs.append(mk(deps, limit=limit))
        if i % 3 == 0:
            cfgs.append(mk(deps, limit=1 + (i // 3) % 2, failing=["c"]))
        if i % 5 == 0:
            cfgs.append(mk({**deps, "c": []}, limit=2, unknown=["c"]))
        # reversed dependency order exercises the other wait / check order
        if i % 4 == 1:
            cfgs.append(mk({k: list(reversed(v)) for k, v in deps.items()}, limit=2))
    if tier != "quick":
        for deps in CURATED4:
            cfgs.append(mk(deps, limit=2))
            cfgs.append(mk(deps, limit=1))
    # de-duplicate
    seen, res = set(), []
    for c in cfgs:
        k = json.dumps(c, sort_keys=True)
        if k not in seen:
            seen.add(k)
            res.append(c)
    return res


def random_graph(rnd, n, p_edge, p_self=0.1, acyclic=False):
    labels = list(LABELS[:n])
    deps = {l: [] for l in labels}
    for i, u in enumerate(labels):
        for j, v in enumerate(labels):
            if u == v:
                if not acyclic and rnd.random() < p_self * p_edge:
                    deps[u].append(v)
            elif acyclic and j <= i:
                continue
            elif rnd.random() < p_edge:
                deps[u].append(v)
        rnd.shuffle(deps[u])
    # make everything reachable from a: chain in unreachable labels
    reach, fr = {"a"}, ["a"]
    while fr:
        x = fr.pop()
        for y in deps[x]:
            if y not in reach:
                reach.add(y)
                fr.append(y)
    for l in labels:
        if l not in reach:
            src = rnd.choice(sorted(reach))
            deps[src].append(l)
            reach.add(l)
            fr = [l]
            while fr:
                x = fr.pop()
                for y in deps[x]:
                    if y not in reach:
                        reach.add(y)
                        fr.append(y)
    return deps


def wide(n, shared=True):
    """root a -> n children, each depending on one shared leaf."""
    kids = list(LABELS[1:n + 1])
    deps = {"a": kids}
    for k in kids:
        deps[k] = ["z"] if shared else []
    if shared:
        deps["z"] = []
    return deps


def chain(n):
    ls = list(LABELS[:n])
    return {l: ([ls[i + 1]] if i + 1 < n else []) for i, l in enumerate(ls)}


# ---------------------------------------------------------------------------- TLC parts
def design_check(cfgs, tier):
    body = "---- MODULE MCRunnerGen ----\nEXTENDS Runner\nMCCfgs == {\n  " + ",\n  ".join(cfg_to_tla(c) for c in cfgs) + "\n}\n====\n"
    cfgtxt = """SPECIFICATION Spec
CONSTANTS
  Cfgs <- MCCfgs
  Eager = FALSE
  Fifo = FALSE
  MaxStk = 4
INVARIANTS NoViolation TypeOK GateConservation OneGoroutine NoLostWakeup NoLostSignal
PROPERTY Termination
VIEW View
CHECK_DEADLOCK TRUE
"""
    rc, out, wd = vlib.tlc(SPEC, "MCRunnerGen", cfg="MCRunnerGen.cfg", workers=16, timeout=3000 if tier != "quick" else 900,
                           heap="12g", files={"MCRunnerGen.tla": body, "MCRunnerGen.cfg": cfgtxt})
    gen, dist = vlib.tlc_stats(out)
    ok = "Model checking completed. No error has been found." in out
    return {"ok": ok, "generated": gen, "distinct": dist, "configs": len(cfgs),
            "errors": vlib.tlc_error(out)[:5], "tail": out[-1500:] if not ok else ""}


def gen_schedules(cfgs, num, sd):
    """TLC -simulate on RunnerGen: returns list of (cfg, schedule)."""
    body = "---- MODULE MCGen ----\nEXTENDS RunnerGen\nGenCfgs == {\n  " + ",\n  ".join(cfg_to_tla(c) for c in cfgs) + "\n}\n====\n"
    rc, out, wd = vlib.tlc(SPEC, "MCGen", cfg="RunnerGen.cfg", workers=1, timeout=600, heap="3g",
                           files={"MCGen.tla": body},
                           args=["-simulate", "num=%d" % num, "-depth", "2000", "-seed", str(sd), "-deadlock"])
    hs = vlib.tlc_prints(out, "HIST")
    res = []
    for h in hs:
        if isinstance(h, dict):
            c = h["cfg"]
            c["unknown"] = list(c.get("unknown") or [])
            c["failing"] = list(c.get("failing") or [])
            c["deps"] = {k: list(v) for k, v in c["deps"].items()}
            res.append((c, list(h["h"])))
    if not res:
        raise Inconclusive("TLC generated no schedules:\n" + out[-2000:])
    return res


# ---------------------------------------------------------------------------- cases
def make_cases(tier, sd):
    rnd = random.Random(sd * 7919 + 13)
    quick = tier == "quick"
    cases = []

    def add(prefix, cfg, mode, **kw):
        cases.append(dict(id="%s-%d" % (prefix, len(cases)), cfg=cfg, mode=mode, seed=rnd.randrange(1 << 30), **kw))

    g2 = canonical_small_graphs(1) + canonical_small_graphs(2)
    g3 = canonical_small_graphs(3)
    # (1) TLC-generated schedules on small graphs
    gen_cfgs = [mk(d, limit=l) for d in g2 for l in (1, 2)]
    gen_cfgs += [mk(d, limit=1 + i % 3) for i, d in enumerate(rnd.sample(g3, 30 if quick else 120))]
    gen_cfgs += [mk(d, limit=2, failing=["b"]) for d in rnd.sample(g3, 6 if quick else 20)]
    gen_cfgs += [mk({**d, "c": []}, limit=2, unknown=["c"]) for d in rnd.sample(g3, 6 if quick else 20)]
    if not quick:
        gen_cfgs += [mk(d, limit=2) for d in CURATED4]
    scheds = gen_schedules(gen_cfgs, 1500 if quick else 8000, sd)
    for c, h in scheds:
        add("tlc", c, "script", schedule=h)
    # (2) random / PCT schedules: all small graphs, random larger ones
    reps = 2 if quick else 8
    for d in g2 + g3:
        for r in range(reps):
            c = mk(d, limit=1 + rnd.randrange(3))
            if rnd.random() < 0.25:
                c["failing"] = [rnd.choice(sorted(d))]
            if rnd.random() < 0.15:
                u = rnd.choice(sorted(d))
                if u != "a":
                    c["unknown"] = [u]
            add("rnd", c, "pct" if r % 2 else "random")
    nbig = 300 if quick else 3000
    for i in range(nbig):
        n = rnd.randrange(4, 9)
        d = random_graph(rnd, n, rnd.choice([0.15, 0.25, 0.4]), acyclic=(i % 3 == 0))
        c = mk(d, limit=1 + rnd.randrange(4))
        ls = sorted(d)
        if rnd.random() < 0.3:
            c["failing"] = rnd.sample(ls, 1)
        if rnd.random() < 0.2:
            c["unknown"] = [rnd.choice(ls[1:])]
        add("big", c, "pct" if i % 2 else "random")
    # duplicate entries in a dependency list, missing label (not in the graph at all)
    for limit in (1, 2):
        add("dup", mk({"a": ["b", "b", "c"], "b": ["c"], "c": []}, limit=limit), "random")
        add("dup", mk({"a": ["b", "a"], "b": []}, limit=limit), "random")
    # contended gate under the controlled scheduler: more ready siblings than slots, so several
    # goroutines are parked in the gate while slots are handed back in every order
    for i in range(60 if quick else 600):
        limit = 2 + i % 2
        k = limit + 2 + i % 3
        d = wide(k, shared=(i % 4 == 3))
        add("gate", mk(d, limit=limit), "pct" if i % 2 else "random")
    # (3) free-running stress
    nstress = 40 if quick else 400
    for i in range(nstress):
        limit = 1 + i % 3
        kind = i % 5
        if kind == 0:
            d = wide(12)
        elif kind == 1:
            d = wide(14, shared=False)
        elif kind == 2:
            d = chain(8)
        elif kind == 3:
            d = random_graph(rnd, 8, 0.35)
        else:
            d = random_graph(rnd, 10, 0.3, acyclic=True)
        c = mk(d, limit=limit)
        if kind == 1 and i % 2:
            c["unknown"] = ["c", "f"]
        add("str", c, "stress", noise=i % 3, procs=[0, 1, 2, 16][i % 4])
    # gate round trips: every leaf gives its slot up and takes one again many times. GOMAXPROCS
    # above the number of CPUs (which stays the limit) lets goroutines that hold no slot run
    # while the holders are descheduled -- what blocking target bodies do in a real build
    for i in range(8 if quick else 60):
        limit = 2 + i % 2
        add("spin", mk(wide(16, shared=False), limit=limit), "stress", noise=(i // 2) % 2,
            spin=20000, procs=(16 if i % 4 != 3 else 0))
    # high parallelism: siblings released together race for a shared, not yet registered dependency
    ncpu = os.cpu_count() or 2
    if ncpu >= 4:
        big = min(ncpu, 16)
        for i in range(12 if quick else 60):
            k = big - 1 - (i % 3)
            d = wide(k) if i % 4 else {**wide(k), "z": ["y"], "y": []}
            c = mk(d, limit=big)
            if i % 5 == 4:
                c["failing"] = ["z"]
            add("par", c, "stress", noise=i % 2, reps=150 if quick else 400, barrier=k if i % 2 == 0 else 0)
    return cases


# ---------------------------------------------------------------------------- execution
CRASHES = []     # processes killed inside the runner during the last run_cases


def run_cases(binary, cases, wd):
    """Runs the harness once per limit under taskset; restarts after stalls/hangs."""
    cases_path = os.path.join(wd, "cases.ndjson")
    with open(cases_path, "w") as f:
        for c in cases:
            f.write(json.dumps(c) + "\n")
    out_path = os.path.join(wd, "traces.ndjson")
    open(out_path, "w").close()
    limits = sorted({c["cfg"]["limit"] for c in cases})
    crashes = CRASHES

    def run_limit(limit):
        resume = ""
        hangs = 0
        op = os.path.join(wd, "traces-%d.ndjson" % limit)
        open(op, "w").close()
        for attempt in range(60):
            env = dict(os.environ, VERIF_CASES=cases_path, VERIF_OUT=op, VERIF_RESUME_AFTER=resume)
            p = subprocess.run(["taskset", "-c", "0-%d" % (limit - 1), binary, "-test.run", "^TestVerifRunner$", "-test.timeout", "3000s"],
                               env=env, stdout=subprocess.PIPE, stderr=subprocess.STDOUT, text=True)
            if p.returncode == 0:
                return op
            if p.returncode in (4, 5):  # stall / hang: resume after the last case written
                last = None
                with open(op) as f:
                    for line in f:
                        last = line
                if last is None:
                    raise Inconclusive("harness stalled before its first case:\n" + p.stdout[-2000:])
                resume = json.loads(last)["id"].split(".")[0]
                if p.returncode == 5:
                    hangs += 1
                    if hangs >= 3:
                        # three builds that never finished (each is a recorded execution the
                        # monitor judges): the remaining cases of this limit add nothing
                        return op
                continue
            what = vlib.fatal_in_code_under_test(p.stdout)
            cur = op + ".cur"
            if what and os.path.exists(cur) and len(crashes) >= 6:
                return op      # enough crashed builds to decide; the rest of this limit adds nothing
            if what and os.path.exists(cur):
                # the runner itself killed the process (stack overflow of the cycle walk, ...): that
                # is the outcome of the case in flight; go on after it
                cid = open(cur).read().strip()
                crashes.append({"id": cid, "what": what})
                resume = cid
                continue
            raise Inconclusive("runner harness failed (exit %d):\n%s" % (p.returncode, p.stdout[-3000:]))
        raise Inconclusive("runner harness kept stalling")

    from concurrent.futures import ThreadPoolExecutor
    traces = []
    # limits run one after the other: each pins itself to cpus 0..limit-1
    for limit in limits:
        op = run_limit(limit)
        with open(op) as f:
            for line in f:
                traces.append(json.loads(line))
    return traces


def to_p_line(t):
    return {"id": t["id"], "cfg": t["cfg"], "events": [{k: v for k, v in e.items() if k != "dump"} for e in t["events"] if e["ev"] not in ("HarnessPanic", "StepBound")]}


def to_d_line(t):
    steps = []
    for s in t["steps"]:
        if s["ev"] == "Proj":
            pr = s["proj"]
            if "status" not in pr or "waiting" not in pr:
                return None
            steps.append({"ev": "Proj", "proj": {"cap": pr["cap"], "status": pr["status"],
                                                  "waiting": {k: v for k, v in pr["waiting"].items() if v is not None}}})
        else:
            steps.append(s)
    return {"id": t["id"], "cfg": t["cfg"], "steps": steps}


def pipeline(tier):
    t0 = time.time()
    sd = vlib.seed()
    rnd = random.Random(sd)
    wd = vlib.scratch("runner-")
    res = {"family": "runner", "tier": tier, "seed": sd}
    # 1. design check
    dc = design_cfgs(tier, rnd)
    res["design"] = design_check(dc, tier)
    # 2. cases (includes TLC schedule generation)
    cases = make_cases(tier, sd)
    res["n_cases"] = len(cases)
    # 3. build and run
    binary = vlib.build_test("runner", wd)
    del CRASHES[:]
    traces = run_cases(binary, cases, wd)
    crashed = list(CRASHES)
    stalls = [t for t in traces if t.get("stall")]
    traces = [t for t in traces if not t.get("stall")]
    res["stalls"] = [t["id"] for t in stalls]
    by_id = {c["id"]: c for c in cases}
    for t in traces:
        if t["id"] not in by_id and "." in t["id"]:
            by_id[t["id"]] = dict(by_id[t["id"].rsplit(".", 1)[0]], id=t["id"], seed=t.get("seed"), reps=0)
    # a stalled controlled case is re-run free-running to get a verdict
    if stalls:
        redo = []
        for t in stalls:
            c = dict(by_id[t["id"]])
            c["mode"], c["noise"], c["id"] = "stress", 1, c["id"] + "-free"
            redo.append(c)
            by_id[c["id"]] = c
        traces += [t for t in run_cases(binary, redo, vlib.scratch("runner-redo-")) if not t.get("stall")]
    res["n_traces"] = len(traces)
    res["modes"] = {}
    for t in traces:
        res["modes"][t["mode"]] = res["modes"].get(t["mode"], 0) + 1
    res["script_diverged"] = sum(1 for t in traces if t["mode"] == "script" and t.get("diverged", -1) >= 0)
    res["events"] = sum(len(t["events"]) for t in traces)
    spins = [e for t in traces for e in t["events"] if e["ev"] == "Spin"]
    res["gate_round_trips"] = sum(e["n"] for e in spins)
    res["gate_round_trip_peak"] = max([e["peak"] for e in spins] or [0])
    res["contended_gate_schedules"] = sum(1 for t in traces if t["id"].startswith("gate-"))
    # 4. property monitor
    viols, n = vlib.eval_traces(SPEC, "RunnerTraceP", "RunnerTraceP.cfg", [to_p_line(t) for t in traces], shards=12)
    tr_by_id = {t["id"]: t for t in traces}
    out = []
    for v in viols:
        t = tr_by_id[v["id"]]
        for x in v["viol"]:
            out.append({"prop": x["prop"], "what": x["what"], "l": x.get("l", ""), "at": x.get("at"), "id": v["id"],
                        "case": by_id.get(v["id"]), "mode": t["mode"]})
    by_case = {c["id"]: c for c in cases}
    for c in crashed:
        # a build that ends in a fatal error of the process neither finishes nor reports anything
        out.append({"prop": "C05", "what": "the runner killed the process instead of finishing the build: " + c["what"], "l": "", "at": 0,
                    "id": c["id"], "case": by_case.get(c["id"].split(".")[0]), "mode": "crash"})
    res["violations"] = out
    # 5. design conformance (drift) on controlled traces
    ctl = [t for t in traces if t["mode"] != "stress" and t.get("steps") and not t.get("bounded")]
    sample = ctl if tier != "quick" else ctl[:: max(1, len(ctl) // 600)]
    dl = [x for x in (to_d_line(t) for t in sample) if x]
    res["drift_checked"] = len(dl)
    res["drift"] = []
    if dl:
        try:
            dv, _ = eval_drift(dl)
            res["drift"] = dv[:20]
            res["drift_count"] = len(dv)
        except Inconclusive as e:
            res["drift_error"] = str(e)[:500]
    res["distinct_schedules"] = len({(json.dumps(t["cfg"], sort_keys=True), tuple(t.get("schedule") or ())) for t in ctl})
    res["samples"] = [{"id": t["id"], "cfg": t["cfg"], "mode": t["mode"], "schedule": (t.get("schedule") or [])[:40],
                       "events": t["events"][:12]} for t in traces[:1] + traces[len(traces) // 2:len(traces) // 2 + 1]]
    res["wall_s"] = time.time() - t0
    return res


def eval_drift(lines):
    shards = max(1, min(12, (len(lines) + 39) // 40))
    parts = [lines[i::shards] for i in range(shards)]
    from concurrent.futures import ThreadPoolExecutor

    def run(part):
        wd = vlib.scratch("trd-")
        with open(os.path.join(wd, "trace.ndjson"), "w") as f:
            for t in part:
                f.write(json.dumps(t, separators=(",", ":")) + "\n")
        rc, out, _ = vlib.tlc(SPEC, "RunnerTraceD", cfg="RunnerTraceD.cfg", workers=1, timeout=1800, heap="3g", cwd=wd)
        done = vlib.tlc_prints(out, "DONE")
        if not done or "Error:" in out:
            raise Inconclusive("trace validation against Runner.tla failed:\n" + out[-2500:])
        return vlib.tlc_prints(out, "DRIFT")

    res = []
    with ThreadPoolExecutor(max_workers=shards) as ex:
        for r in ex.map(run, parts):
            res.extend(r)
    seen, out = set(), []
    for d in res:
        k = json.dumps(d, sort_keys=True)
        if k not in seen:
            seen.add(k)
            out.append(d)
    return out, len(lines)


LEVEL_TEXT = {
    "C04": "once-only / after-dependencies / faithful results",
    "C05": "termination and cycle reporting",
    "C09": "parallelism limit and slot conservation",
}


def check(prop, tier):
    t0 = time.time()
    fr = vlib.FamilyRun("runner", tier)
    res = fr.get(lambda: pipeline(tier))
    if not res["design"]["ok"]:
        raise Inconclusive("TLC rejects the design spec Runner (x) RunnerMon (spec problem, not a verdict on the code): %s" % res["design"]["errors"])
    viols = []
    for v in res["violations"]:
        if v["prop"] != prop:
            continue
        v = dict(v)
        v["sig"] = "%s|%s" % (v["prop"], v["what"])
        viols.append(v)
    builds = None
    if prop == "C04":
        # the same property one level up: whole builds of real projects (labels spelled in
        # several ways, shared dependencies), evaluated by BuildMon's once-per-build rules
        import fam_build
        res2 = vlib.FamilyRun("build", tier).get(lambda: fam_build.pipeline(tier))
        builds = res2["builds"]
        for v in res2["violations"]:
            if v["prop"] == "C04":
                viols.append(dict(v, sig="C04|build|%s" % v["what"], mode="build", family="build"))
    cov = {
        "states": res["design"]["distinct"],
        "transitions": res["design"]["generated"],
        "traces_validated_against_impl": res["n_traces"],
        "samples": res["samples"],
        "design_configs": res["design"]["configs"],
        "real_executions_by_mode": res["modes"],
        "events_evaluated_by_monitor": res["events"],
        "gate_round_trips_under_stress": res.get("gate_round_trips", 0),
        "largest_executing_count_seen_during_round_trips": res.get("gate_round_trip_peak", 0),
        "controlled_schedules_with_more_ready_targets_than_slots": res.get("contended_gate_schedules", 0),
        "distinct_controlled_schedules": res["distinct_schedules"],
        "tlc_scripted_schedules_diverged": res["script_diverged"],
        "traces_validated_against_design_spec": res["drift_checked"],
        "design_drift": res.get("drift_count", 0),
        "design_drift_samples": res.get("drift", [])[:3],
        "stalled_controlled_cases_rerun_free": res["stalls"],
        "exhaustive": False,
        "rule": "distinct = distinct (graph, limit, released-thread sequence) pairs among controlled executions; every execution is evaluated by RunnerMon",
        "family_run_shared": bool(res.get("from_cache")),
        "family_wall_s": round(res["wall_s"], 1),
    }
    if builds is not None:
        cov["real_project_builds_evaluated_by_BuildMon"] = builds
    if res.get("drift_error"):
        cov["design_drift_error"] = res["drift_error"]
    if res.get("drift_count"):
        print("DRIFT: %d controlled traces are not behaviours of specs/runner/Runner.tla (diagnostic only)" % res["drift_count"])
    assumptions = [
        "Go's sync, sync/atomic and testing/synctest are trusted",
        "the parallelism limit is set through CPU affinity (taskset), which runtime.NumCPU follows",
        "interleavings finer than the hook grain are only reached by free-running stress",
    ]
    return vlib.conclude(prop, tier, "model_checking", cov, t0, viols, assumptions,
                         lambda v: {"family": v.get("family", "runner"), "property": prop, "case": v["case"],
                                    "violation": {k: v.get(k) for k in ("prop", "what", "l", "at", "id", "mode", "around")}})


def replay(prop, path):
    """Re-executes the recorded case on the real code and re-evaluates it with the monitor."""
    with open(path) as f:
        r = json.load(f)
    case = r.get("case")
    if not case:
        raise Inconclusive("replay file has no case")
    if r.get("family") == "build":
        import fam_build
        return fam_build.replay(prop, path)
    wd = vlib.scratch("replay-")
    binary = vlib.build_test("runner", wd)
    traces = run_cases(binary, [case], wd)
    traces = [t for t in traces if not t.get("stall")]
    viols, n = vlib.eval_traces(SPEC, "RunnerTraceP", "RunnerTraceP.cfg", [to_p_line(t) for t in traces], shards=1)
    got = [(x["prop"], x["what"]) for v in viols for x in v["viol"]]
    print("replayed %d execution(s); monitor reports: %s" % (len(traces), got or "no violation"))
    want = (r["violation"]["prop"], r["violation"]["what"])
    if want in got:
        print("VIOLATION property=%s replay=%s" % (prop, path))
        return 1
    print("the recorded violation did not reproduce (schedule-dependent cases may need several runs)")
    return 0
