#!/usr/bin/env python3
"""Development-time: run every seeded change against the quick check of its property (scratch copies
of /repo) and write seeded/REGRESSION.json.  usage: regress_seeded.py [workers [name-regex]]
(with a name-regex only the matching changes run and the result goes to seeded/REGRESSION-partial.json)"""
import glob, json, os, subprocess, sys, time
from concurrent.futures import ThreadPoolExecutor
os.chdir("/verif")
jobs = []
for m in sorted([m for m in glob.glob("seeded/*/meta.json") if "/_retired/" not in m]):
    md = json.load(open(m))
    jobs.append((os.path.basename(os.path.dirname(m)), md["property"], md.get("detected_by") or []))
import re
FILTER = re.compile(sys.argv[2]) if len(sys.argv) > 2 else None
if FILTER:
    jobs = [j for j in jobs if FILTER.search(j[0])]
OUT = "seeded/REGRESSION-partial.json" if FILTER else "seeded/REGRESSION.json"
def run(j):
    name, prop, det = j
    props = [prop]
    # a change recorded as caught by another property's check is run against that one too
    for d in det:
        for p in ("C%02d" % i for i in range(1, 21)):
            if ("reported by %s" % p) in d and p not in props:
                props.append(p)
    t0 = time.time()
    out = {}
    for p in props:
        r = subprocess.run(["timeout", "1500", "tools/run_mutant.sh", name, p], stdout=subprocess.PIPE, stderr=subprocess.STDOUT, text=True)
        rc = [l for l in r.stdout.splitlines() if l.startswith("== ")]
        out[p] = rc[0].split("rc=")[-1] if rc else "?"
    return {"name": name, "property": prop, "results": out, "s": round(time.time() - t0)}
res = []
with ThreadPoolExecutor(int(sys.argv[1]) if len(sys.argv) > 1 else 3) as ex:
    for r in ex.map(run, jobs):
        res.append(r)
        print(r, flush=True)
        json.dump(res, open(OUT, "w"), indent=1)
