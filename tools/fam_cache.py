"""Cache family (C20): TLC checks Cache.tla (x) CacheMon over callers x keys x failure
plans; the real Cache().once is driven through its Starlark interface under TLC-generated,
random and PCT schedules of the controlled scheduler and free-running with a slow callable;
every real execution is evaluated by the TLA+ monitor; controlled traces are validated
against the design spec."""
import json
import os
import random
import time

import vlib
from vlib import Inconclusive

SPEC = os.path.join(vlib.VERIF, "specs", "cache")


def tla_bool_seq(bs):
    return "<<" + ", ".join("TRUE" if b else "FALSE" for b in bs) + ">>"


def tla_str_seq(xs):
    return "<<" + ", ".join('"%s"' % x for x in xs) + ">>"


def cfg_to_tla(c):
    ops = ", ".join("%s |-> %s" % (x, tla_str_seq(ks)) for x, ks in sorted(c["ops"].items()))
    plan = ", ".join("%s |-> %s" % (k, tla_bool_seq(p)) for k, p in sorted(c["plan"].items()))
    return "[ops |-> [%s], plan |-> [%s]]" % (ops, plan)


def design_cfgs(tier):
    cfgs = []
    plans1 = [[], [False], [False, False], [False, True, False]]
    # 3 callers x 1..2 keys x plans
    for p in plans1:
        cfgs.append({"ops": {"c1": ["k"], "c2": ["k"], "c3": ["k"]}, "plan": {"k": p}})
        cfgs.append({"ops": {"c1": ["k", "k"], "c2": ["k", "k"]}, "plan": {"k": p}})
    for pk in plans1[:3]:
        for pj in plans1[:2]:
            cfgs.append({"ops": {"c1": ["k", "j"], "c2": ["j", "k"], "c3": ["k", "k"]}, "plan": {"k": pk, "j": pj}})
    if tier != "quick":
        for pk in plans1:
            cfgs.append({"ops": {"c1": ["k", "j"], "c2": ["j", "k"], "c3": ["k", "j"], "c4": ["j"]}, "plan": {"k": pk, "j": [False]}})
            cfgs.append({"ops": {"c1": ["k", "k", "k"], "c2": ["k", "k"], "c3": ["k"]}, "plan": {"k": pk}})
    return cfgs


def design_check(cfgs):
    body = "---- MODULE MCCacheGen ----\nEXTENDS Cache\nMCCfgs == {\n  " + ",\n  ".join(cfg_to_tla(c) for c in cfgs) + "\n}\n====\n"
    cfgtxt = "SPECIFICATION Spec\nCONSTANTS Cfgs <- MCCfgs\nINVARIANTS NoViolation LockOK\nPROPERTIES StoredOnce Termination\nVIEW View\n"
    rc, out, wd = vlib.tlc(SPEC, "MCCacheGen", cfg="MCCacheGen.cfg", workers=8, timeout=1200, heap="8g",
                           files={"MCCacheGen.tla": body, "MCCacheGen.cfg": cfgtxt})
    gen, dist = vlib.tlc_stats(out)
    ok = "Model checking completed. No error has been found." in out
    return {"ok": ok, "generated": gen, "distinct": dist, "configs": len(cfgs), "errors": vlib.tlc_error(out)[:5]}


def gen_schedules(cfgs, num, sd):
    body = "---- MODULE MCGen ----\nEXTENDS CacheGen\nGenCfgs == {\n  " + ",\n  ".join(cfg_to_tla(c) for c in cfgs) + "\n}\n====\n"
    rc, out, wd = vlib.tlc(SPEC, "MCGen", cfg="CacheGen.cfg", workers=1, timeout=600, heap="3g", files={"MCGen.tla": body},
                           args=["-simulate", "num=%d" % num, "-depth", "500", "-seed", str(sd), "-deadlock"])
    res = []
    for h in vlib.tlc_prints(out, "HIST"):
        if isinstance(h, dict):
            c = h["cfg"]
            res.append(({"ops": {x: list(v) for x, v in c["ops"].items()}, "plan": {k: list(v) for k, v in c["plan"].items()}}, list(h["h"])))
    if not res:
        raise Inconclusive("TLC generated no cache schedules:\n" + out[-2000:])
    return res


def make_cases(tier, sd):
    rnd = random.Random(sd * 31 + 5)
    quick = tier == "quick"
    cases = []

    def add(prefix, cfg, mode, **kw):
        # every other case uses the cache the way target functions do: frozen with its module
        cases.append(dict(id="%s-%d" % (prefix, len(cases)), cfg=cfg, mode=mode, seed=rnd.randrange(1 << 30), frozen=(len(cases) % 2 == 1), **kw))

    dcfgs = design_cfgs(tier)
    for c, h in gen_schedules(dcfgs, 600 if quick else 4000, sd):
        add("tlc", c, "script", schedule=h)

    def rand_cfg(nc, nk, nops):
        keys = ["k", "j", "i", "h"][:nk]
        if rnd.random() < 0.4:
            keys = keys + ["k~2"]      # the same key of a second cache: caches share nothing
        ops = {"c%d" % (i + 1): [rnd.choice(keys) for _ in range(rnd.randrange(1, nops + 1))] for i in range(nc)}
        plan = {k: [rnd.random() < 0.5 for _ in range(rnd.randrange(0, 4))] for k in keys}
        return {"ops": ops, "plan": plan}

    for i in range(400 if quick else 4000):
        add("rnd", rand_cfg(rnd.randrange(2, 7), rnd.randrange(1, 4), 3), "pct" if i % 3 == 0 else "random")
    for i in range(30 if quick else 200):
        c = rand_cfg(rnd.randrange(4, 17), rnd.randrange(1, 3), 3)
        add("str", c, "stress", slow=[0, 20, 100, 300][i % 4], reps=10 if quick else 30)
    return cases


def to_p_line(t):
    return {"id": t["id"], "cfg": t["cfg"], "events": [e for e in t["events"] if e["ev"] not in ("HarnessPanic", "HarnessError")]}


def pipeline(tier):
    t0 = time.time()
    sd = vlib.seed()
    wd = vlib.scratch("cache-")
    res = {"family": "cache", "tier": tier, "seed": sd}
    res["design"] = design_check(design_cfgs(tier))
    cases = make_cases(tier, sd)
    binary = vlib.build_test("", wd, name="dawn")
    traces = vlib.run_harness(binary, "TestVerifCache", cases, wd)
    traces, crashes = vlib.split_crashes(traces)
    stalls = [t for t in traces if t.get("stall")]
    traces = [t for t in traces if not t.get("stall")]
    by_id = {c["id"]: c for c in cases}
    res["stalls"] = [t["id"] for t in stalls]
    if stalls:
        redo = []
        for t in stalls:
            c = dict(by_id[t["id"]], mode="stress", slow=50, reps=20, id=t["id"] + "-free")
            redo.append(c)
            by_id[c["id"]] = c
        traces += [t for t in vlib.run_harness(binary, "TestVerifCache", redo, wd, tag="-redo") if not t.get("stall")]
    herr = [t for t in traces if any(e["ev"] == "HarnessError" for e in t["events"])]
    if herr:
        raise Inconclusive("cache harness could not reach Cache().once: %s" % herr[0]["events"][:2])
    for t in traces:
        if t["id"] not in by_id:
            by_id[t["id"]] = dict(by_id[t["id"].split(".")[0]], id=t["id"], seed=t.get("seed"), reps=1)
    res["n_traces"] = len(traces)
    res["modes"] = {}
    for t in traces:
        res["modes"][t["mode"]] = res["modes"].get(t["mode"], 0) + 1
    res["events"] = sum(len(t["events"]) for t in traces)
    res["script_diverged"] = sum(1 for t in traces if t["mode"] == "script" and t.get("diverged", -1) >= 0)
    viols, n = vlib.eval_traces(SPEC, "CacheTraceP", "CacheTraceP.cfg", [to_p_line(t) for t in traces], shards=8)
    tr_by_id = {t["id"]: t for t in traces}
    out = []
    for v in viols:
        for x in v["viol"]:
            out.append({"prop": x["prop"], "what": x["what"], "key": x.get("key", ""), "at": x.get("at"), "id": v["id"],
                        "case": by_id.get(v["id"]), "mode": tr_by_id[v["id"]]["mode"]})
    for t in crashes:
        out.append({"prop": "C20", "what": "the process was killed by the Go runtime inside the cache: " + t["crash"], "key": "", "at": 0,
                    "id": t["id"], "case": None, "mode": "crash"})
    res["violations"] = out
    # (Cache.tla is one cache with one lock: executions that also use a second cache are judged by
    # the monitor, per cache and key, and are not compared with the design spec)
    ctl = [t for t in traces if t["mode"] != "stress" and t.get("steps") and not any("~2" in k for ks in t["cfg"]["ops"].values() for k in ks)]
    sample = ctl if tier != "quick" else ctl[:: max(1, len(ctl) // 500)]
    dl = [{"id": t["id"], "cfg": t["cfg"], "steps": t["steps"], "events": to_p_line(t)["events"]} for t in sample]
    res["drift_checked"] = len(dl)
    try:
        dv = vlib.eval_drift(SPEC, "CacheTraceD", "CacheTraceD.cfg", dl)
        res["drift_count"], res["drift"] = len(dv), dv[:10]
    except Inconclusive as e:
        res["drift_error"] = str(e)[:600]
    res["distinct_schedules"] = len({(json.dumps(t["cfg"], sort_keys=True), tuple(t.get("schedule") or ())) for t in ctl})
    res["samples"] = [{"id": t["id"], "cfg": t["cfg"], "mode": t["mode"], "schedule": (t.get("schedule") or [])[:30], "events": t["events"][:10]}
                      for t in traces[:1] + traces[-1:]]
    res["wall_s"] = time.time() - t0
    return res


def check(prop, tier):
    t0 = time.time()
    res = vlib.FamilyRun("cache", tier).get(lambda: pipeline(tier))
    if not res["design"]["ok"]:
        raise Inconclusive("TLC rejects the design spec Cache (x) CacheMon: %s" % res["design"]["errors"])
    viols = [dict(v, sig="%s|%s" % (v["prop"], v["what"])) for v in res["violations"] if v["prop"] == prop]
    cov = {
        "states": res["design"]["distinct"], "transitions": res["design"]["generated"],
        "traces_validated_against_impl": res["n_traces"], "samples": res["samples"],
        "design_configs": res["design"]["configs"], "real_executions_by_mode": res["modes"],
        "events_evaluated_by_monitor": res["events"], "distinct_controlled_schedules": res["distinct_schedules"],
        "tlc_scripted_schedules_diverged": res["script_diverged"],
        "traces_validated_against_design_spec": res["drift_checked"], "design_drift": res.get("drift_count", 0),
        "design_drift_samples": res.get("drift", [])[:3], "stalled_controlled_cases_rerun_free": res["stalls"],
        "exhaustive": False,
        "rule": "distinct = distinct (ops, plan, released-caller sequence) among controlled executions; stress executions repeat each configuration with a slow callable",
        "family_wall_s": round(res["wall_s"], 1),
    }
    if res.get("drift_error"):
        cov["design_drift_error"] = res["drift_error"]
    if res.get("drift_count"):
        print("DRIFT: %d controlled traces are not behaviours of specs/cache/Cache.tla (diagnostic only)" % res["drift_count"])
    assumptions = ["Go's sync.RWMutex and testing/synctest are trusted", "the callable does not re-enter the cache"]
    return vlib.conclude(prop, tier, "model_checking", cov, t0, viols, assumptions,
                         lambda v: {"family": "cache", "property": prop, "case": v["case"],
                                    "violation": {k: v[k] for k in ("prop", "what", "key", "at", "id", "mode")}})


def replay(prop, path):
    """Re-executes the recorded case on the real code and re-evaluates it with the monitor."""
    with open(path) as f:
        r = json.load(f)
    case = r.get("case")
    if not case:
        raise Inconclusive("replay file has no case")
    wd = vlib.scratch("replay-")
    binary = vlib.build_test("", wd, name="dawn")
    traces = vlib.run_harness(binary, "TestVerifCache", [case], wd)
    traces = [t for t in traces if not t.get("stall")]
    viols, n = vlib.eval_traces(SPEC, "CacheTraceP", "CacheTraceP.cfg", [to_p_line(t) for t in traces], shards=1)
    got = [(x["prop"], x["what"]) for v in viols for x in v["viol"]]
    print("replayed %d execution(s); monitor reports: %s" % (len(traces), got or "no violation"))
    want = (r["violation"]["prop"], r["violation"]["what"])
    if want in got:
        print("VIOLATION property=%s replay=%s" % (prop, path))
        return 1
    print("the recorded violation did not reproduce (schedule-dependent cases may need several runs)")
    return 0
