#!/bin/bash
# Development-time: apply a seeded change to a scratch copy of /repo, run the given checks (quick)
# against that copy (VERIF_REPO), remove the copy.  /repo itself is never touched.
# usage: run_mutant.sh <seeded-name> <ID> [<ID> ...]
set -u
name=$1; shift
cd /verif
copy=/tmp/mutrepo-$name
rm -rf $copy; cp -a /repo $copy
git -C $copy checkout -q -- . 
git -C $copy apply /verif/seeded/$name/patch.diff || { rm -rf $copy; exit 3; }
trap 'rm -rf $copy' EXIT
for id in "$@"; do
  out=$(VERIF_REPO=$copy VERIF_SEED=${VERIF_SEED:-1} VERIF_EVIDENCE_DIR=/tmp/mutev-$name timeout 1500 ./check $id ${TIER:-quick} 2>&1); rc=$?
  echo "== $name $id rc=$rc"; echo "$out" | grep -E 'VIOLATION|what:|KNOWN|INCONCLUSIVE|DRIFT' | head -8
done
rm -rf /tmp/mutev-$name
