#!/bin/bash
# Development-time: apply a seeded change to /repo, run the given checks (quick), undo it.
# usage: run_mutant.sh <seeded-name> <ID> [<ID> ...]
set -u
name=$1; shift
cd /verif
git -C /repo diff --quiet || { echo "/repo is dirty"; exit 3; }
git -C /repo apply /verif/seeded/$name/patch.diff || exit 3
trap 'git -C /repo checkout -- . ; git -C /repo clean -fdq' EXIT
for id in "$@"; do
  out=$(VERIF_SEED=${VERIF_SEED:-1} ./check $id ${TIER:-quick} 2>&1); rc=$?
  echo "== $name $id rc=$rc"; echo "$out" | grep -E 'VIOLATION|what:|KNOWN|INCONCLUSIVE|DRIFT' | head -8
done
