"""./check --selftest : self-tests of the verification machinery.

1. The binding bites: controlled traces of the real runner are validated against Runner.tla
   (no drift); the same traces with one projection field corrupted / one step dropped are rejected at
   that position.
2. The monitors are not vacuous: a hand-made bad trace per monitor yields exactly the expected
   violation, and a good one yields none.
3. The design specs are not vacuous: in their defective variants (the behaviour found in the original
   code) TLC finds the counterexample.
"""
import copy
import json
import os
import sys
import time

import vlib
from vlib import Inconclusive

S = os.path.join(vlib.VERIF, "specs")
results = []


def ok(name, cond, detail=""):
    results.append((name, bool(cond)))
    print("%s %s %s" % ("PASS" if cond else "FAIL", name, detail if not cond else ""))


def monitor(family, module, cfg, lines, cfgfile=None):
    viols, n = vlib.eval_traces(os.path.join(S, family), module, cfgfile or (module + ".cfg"), lines, shards=1)
    return [(v["id"], x.get("prop"), x.get("what")) for v in viols for x in v["viol"]]


def runner_binding():
    import fam_runner as fr
    wd = vlib.scratch("self-runner-")
    g = fr.mk({"a": ["b", "c"], "b": ["c"], "c": ["a"]}, limit=2)
    d = fr.mk({"a": ["b", "c"], "b": ["d"], "c": ["d"], "d": []}, limit=2, failing=["d"])
    cases = [{"id": "s%d" % i, "cfg": g if i % 2 else d, "mode": "pct" if i % 3 else "random", "seed": 100 + i} for i in range(8)]
    binary = vlib.build_test("runner", wd)
    traces = fr.run_cases(binary, cases, wd)
    dl = [fr.to_d_line(t) for t in traces]
    drift, _ = fr.eval_drift(copy.deepcopy(dl))
    ok("runner: real controlled traces are behaviours of Runner.tla", drift == [], str(drift[:1]))
    bad = copy.deepcopy(dl)
    projs = [s for s in bad[2]["steps"] if s["ev"] == "Proj"]
    projs[len(projs) // 2]["proj"]["cap"] += 1
    steps = [i for i, s in enumerate(bad[4]["steps"]) if s["ev"] == "Step"]
    del bad[4]["steps"][steps[len(steps) // 2]]
    drift, _ = fr.eval_drift(bad)
    ids = sorted(x["id"] for x in drift)
    ok("runner: a corrupted projection and a dropped step are rejected by Runner.tla", ids == sorted([bad[2]["id"], bad[4]["id"]]), str(ids))
    pl = [fr.to_p_line(t) for t in traces]
    ok("runner: RunnerMon accepts the real traces", monitor("runner", "RunnerTraceP", None, copy.deepcopy(pl)) == [])
    badp = copy.deepcopy(pl[:2])
    i = next(k for k, e in enumerate(badp[0]["events"]) if e["ev"] == "EvalBegin")
    badp[0]["events"].insert(i + 1, dict(badp[0]["events"][i]))
    for _ in range(3):
        badp[1]["events"].insert(0, {"ev": "LoadBegin", "l": "a"})
    got = monitor("runner", "RunnerTraceP", None, badp)
    ok("runner: a second evaluation is flagged as C04", any(p == "C04" and "evaluated more than once" in w for _, p, w in got), str(got[:3]))
    ok("runner: more active targets than the limit is flagged as C09", any(p == "C09" for _, p, w in got), str(got[:3]))


def monitors():
    shape = {"targets": {"T1": {"deps": [], "srcs": ["s1"], "gens": [], "always": False}, "T2": {"deps": ["T1"], "srcs": [], "gens": [], "always": False}}, "sources": ["s1"]}

    def build(evs):
        return [{"id": "b", "cfg": shape, "events": evs}]
    pre = [{"ev": "Edit", "kind": "env", "t": "T1", "v": "1"}, {"ev": "Edit", "kind": "env", "t": "T2", "v": "1"}, {"ev": "Edit", "kind": "src", "s": "s1", "v": "v1"}]
    full = pre + [{"ev": "Load", "ok": True}, {"ev": "BuildBegin", "root": "T2", "mode": "real"},
                  {"ev": "Evaluating", "l": "T1"}, {"ev": "ExecEnd", "l": "T1", "ok": True, "env": "1", "srcs": {"s1": "v1"}, "missing": False}, {"ev": "Succeeded", "l": "T1"},
                  {"ev": "Evaluating", "l": "T2"}, {"ev": "ExecEnd", "l": "T2", "ok": True, "env": "1", "srcs": {}, "missing": False}, {"ev": "Succeeded", "l": "T2"},
                  {"ev": "RunDone", "err": False}, {"ev": "BuildEnd", "root": "T2", "err": False}]
    ok("build: BuildMon accepts a complete first build", monitor("build", "BuildTraceP", None, build(full)) == [])
    stale = full + [{"ev": "Edit", "kind": "src", "s": "s1", "v": "v2"}, {"ev": "Load", "ok": True}, {"ev": "BuildBegin", "root": "T2", "mode": "real"},
                    {"ev": "UpToDate", "l": "T1"}, {"ev": "UpToDate", "l": "T2"}, {"ev": "RunDone", "err": False}, {"ev": "BuildEnd", "root": "T2", "err": False}]
    got = monitor("build", "BuildTraceP", None, build(stale))
    ok("build: a build that skips a target whose source changed is flagged as C01", any(p == "C01" for _, p, w in got), str(got))
    spur = full + [{"ev": "Load", "ok": True}, {"ev": "BuildBegin", "root": "T2", "mode": "real"}, {"ev": "UpToDate", "l": "T1"},
                   {"ev": "Evaluating", "l": "T2"}, {"ev": "ExecEnd", "l": "T2", "ok": True, "env": "1", "srcs": {}, "missing": False}, {"ev": "Succeeded", "l": "T2"},
                   {"ev": "RunDone", "err": False}, {"ev": "BuildEnd", "root": "T2", "err": False}]
    got = monitor("build", "BuildTraceP", None, build(spur))
    ok("build: re-executing an unchanged target is flagged as C02", any(p == "C02" for _, p, w in got), str(got))
    lw = [{"id": "l", "cfg": shape, "events": [{"ev": "Lines", "rounds": [["x"], ["x\n"]], "printed": ["x", "xx"]},
                                              {"ev": "Lines", "rounds": [["ab\nc", "d\n"]], "printed": ["ab", "cd"]}]}]
    got = monitor("build", "BuildTraceP", None, lw)
    ok("build: re-delivered partial line is flagged as C18 (and a correct delivery is not)", len(got) == 1 and got[0][1] == "C18", str(got))
    a, b = {"t": "str", "v": "abc"}, {"t": "str", "v": "abd"}
    good = {"k": "slice", "old": a, "new": b, "edits": [{"kind": "common", "vals": {"t": "str", "v": "ab"}},
                                                        {"kind": "replace", "diffs": [{"k": "literal", "old": {"t": "str", "v": "c"}, "new": {"t": "str", "v": "d"}}]}]}
    swapped = dict(good, old=b, new=a)
    got = monitor("diff", "DiffTraceP", None, [{"id": "d", "events": [{"ev": "Diff", "old": a, "new": b, "res": good, "err": ""},
                                                                       {"ev": "Diff", "old": a, "new": b, "res": swapped, "err": ""},
                                                                       {"ev": "Diff", "old": a, "new": b, "res": {"k": "none"}, "err": ""}]}])
    ok("diff: swapped sides and an empty diff of unequal values are flagged, the faithful diff is not",
       sorted(w for _, p, w in got) == ["empty diff of different values", "old/new sides of the diff are not the two values in the order given"], str(got))
    got = monitor("glob", "GlobTraceP", None, [{"id": "g", "events": [{"ev": "Match", "pats": ["a", "b"], "compiled": True, "results": [["a", True], ["ax", True], ["b", True], ["c", False]]}]}])
    ok("glob: an unanchored match is flagged as C17", len(got) == 1 and "matched although no pattern" in got[0][2], str(got))
    ev = [{"ev": "Call", "c": "c1", "key": "k"}, {"ev": "Invoke", "c": "c1", "key": "k", "tok": "k#1", "ok": True}, {"ev": "Return", "c": "c1", "key": "k", "ok": True, "val": "k#1"},
          {"ev": "Call", "c": "c2", "key": "k"}, {"ev": "Invoke", "c": "c2", "key": "k", "tok": "k#2", "ok": True}, {"ev": "Return", "c": "c2", "key": "k", "ok": True, "val": "k#2"}]
    got = monitor("cache", "CacheTraceP", None, [{"id": "c", "cfg": {"ops": {"c1": ["k"], "c2": ["k"]}, "plan": {"k": []}}, "events": ev}])
    ok("cache: two successful invocations for one key are flagged as C20", any("invoked again" in w for _, p, w in got), str(got))
    u = {"req": {"a/1": ["b/1"], "a/2": [], "b/1": ["a/2"]}}
    got = monitor("mvs", "MvsTraceP", None, [{"id": "m", "cfg": u, "events": [
        {"ev": "BuildList", "roots": ["a/1"], "result": {"a": 2, "b": 1}, "err": "", "variant": "ok"},
        {"ev": "BuildList", "roots": ["a/1"], "result": {"a": 1, "b": 1}, "err": "", "variant": "too low"}]}])
    ok("mvs: a build list below the highest reachable requirement is flagged as C10 (the right one is not)", len(got) == 1 and got[0][1] == "C10", str(got))


def design_variants():
    def violated(out):
        return "is violated" in out or "Deadlock reached" in out
    body = ('---- MODULE SelfMod ----\nEXTENDS ModLoad\nMCCfgs == {[loads |-> [p1 |-> <<"m1">>, p2 |-> <<"m1">>, m1 |-> <<"m2">>, m2 |-> <<>>], roots |-> <<"p1","p2">>, bad |-> <<>>, nofetch |-> <<>>]}\n====\n')
    for walk, want in (("current", True), ("fixed", False)):
        cfg = 'SPECIFICATION Spec\nCONSTANTS\n  Cfgs <- MCCfgs\n  Walk = "%s"\n  EnvFail = "done"\nINVARIANTS NoViolation OnceOnly\nPROPERTY Termination\nCHECK_DEADLOCK TRUE\n' % walk
        rc, out, _ = vlib.tlc(os.path.join(S, "modload"), "SelfMod", cfg="SelfMod.cfg", workers=4, timeout=300, files={"SelfMod.tla": body, "SelfMod.cfg": cfg})
        ok("modload: TLC %s a deadlock on the acyclic shared-helper project with Walk = %s" % ("finds" if want else "finds no", walk),
           violated(out) == want and (want or "No error has been found" in out))
    import fam_build
    for mark, want in (("none", True), ("started", False)):
        fam_build.MARK = mark
        body = "---- MODULE SelfMark ----\nEXTENDS Build\nMCCfgs == {" + fam_build.cfg_to_tla("chain", "runs") + "}\n====\n"
        cfg = ("SPECIFICATION Spec\nCONSTANTS\n  Cfgs <- MCCfgs\n  MaxEdits = 2\n  MaxBuilds = 3\n  MaxCrashes = 1\n  MaxFails = 0\n  MaxGCs = 0\n"
               "INVARIANTS NoViolation\nVIEW View\nCHECK_DEADLOCK FALSE\n")
        rc, out, _ = vlib.tlc(os.path.join(S, "build"), "SelfMark", cfg="SelfMark.cfg", workers=8, timeout=900, heap="6g", files={"SelfMark.tla": body, "SelfMark.cfg": cfg})
        ok("build: TLC %s the edit / death after the body / undo staleness with mark = %s" % ("finds" if want else "does not find", mark), violated(out) == want)
    fam_build.MARK = "started"
    for stamp, want in (("env", True), ("runs", False)):
        b = "---- MODULE SelfBuild ----\nEXTENDS Build\nMCCfgs == { %s }\n====\n" % fam_build.cfg_to_tla("chain", stamp)
        cfg = "SPECIFICATION Spec\nCONSTANTS\n  Cfgs <- MCCfgs\n  MaxEdits = 1\n  MaxBuilds = 3\n  MaxCrashes = 0\n  MaxFails = 0\n  MaxGCs = 0\nINVARIANT NoViolation\nVIEW View\nCHECK_DEADLOCK FALSE\n"
        rc, out, _ = vlib.tlc(os.path.join(S, "build"), "SelfBuild", cfg="SelfBuild.cfg", workers=8, timeout=600, files={"SelfBuild.tla": b, "SelfBuild.cfg": cfg})
        ok("build: TLC %s the partial-build staleness with stamp = %s" % ("finds" if want else "does not find", stamp), violated(out) == want)
    for (mode, n, k, consts, want, name) in (
            ("heaps", 2, 3, 'Repush = TRUE\n  HostCycles = "none"', True, "the batching defect with Repush = TRUE"),
            ("heaps", 2, 3, 'Repush = FALSE\n  HostCycles = "none"', False, "no round-trip failure with Repush = FALSE"),
            ("refs", 2, 2, 'Repush = FALSE\n  HostCycles = "diverge"', True, "the unbounded recursion with HostCycles = diverge"),
            ("refs", 2, 2, 'Repush = FALSE\n  HostCycles = "standin"', False, "no divergence with HostCycles = standin")):
        cfg = 'SPECIFICATION Spec\nCONSTANTS\n  N = %d\n  K = %d\n  L = 2\n  Mode = "%s"\n  %s\nINVARIANT Inv\nCHECK_DEADLOCK FALSE\n' % (n, k, mode, consts)
        rc, out, _ = vlib.tlc(os.path.join(S, "pickle"), "PickleMC", cfg="self.cfg", workers=8, timeout=600, files={"self.cfg": cfg})
        ok("pickle: TLC finds " + name, violated(out) == want)
    for reset, want in (("FALSE", True), ("TRUE", False)):
        cfg = "SPECIFICATION Spec\nCONSTANTS\n  Texts <- MCTexts\n  Rounds = 2\n  ResetOnFlush = %s\n  MaxLen = 2\nINVARIANTS Faithful Prefix\nCHECK_DEADLOCK FALSE\n" % reset
        rc, out, _ = vlib.tlc(os.path.join(S, "build"), "LineMC", cfg="self.cfg", workers=4, timeout=300, files={"self.cfg": cfg})
        ok("linewriter: TLC %s the re-delivered line with ResetOnFlush = %s" % ("finds" if want else "does not find", reset), violated(out) == want)


    for locked, want in (("FALSE", True), ("TRUE", False)):
        cfg = "SPECIFICATION Spec\nCONSTANTS\n  Locked = %s\n  LinesPer = 2\nINVARIANT ExactlyOnce\nCHECK_DEADLOCK FALSE\n" % locked
        rc, out, _ = vlib.tlc(os.path.join(S, "build"), "LineWriterPar", cfg="self.cfg", workers=4, timeout=300, files={"self.cfg": cfg})
        ok("linewriter: TLC %s lost or doubled output under two writers with Locked = %s" % ("finds" if want else "does not find", locked), violated(out) == want)


def main():
    t0 = time.time()
    try:
        runner_binding()
        monitors()
        design_variants()
    except Inconclusive as e:
        print("INCONCLUSIVE selftest:", e)
        return 2
    finally:
        vlib.cleanup()
    bad = [n for n, c in results if not c]
    print("selftest: %d checks, %d failed, %.0fs" % (len(results), len(bad), time.time() - t0))
    return 1 if bad else 0
