"""Fingerprint family (C08, and the on-disk half of C15): Pickle.tla models the encoder's
traversal of reference graphs (host objects referring to one another through their
arguments) and TLC checks that it terminates with a well-formed pickle on every graph of
the scope; generated Starlark programs covering every kind of referenced value are loaded
in child processes, fingerprinted, reloaded, edited and re-fingerprinted, and persisted
records are corrupted; the TLA+ monitor PickleMon decides the outcomes."""
import json
import os
import time
from concurrent.futures import ThreadPoolExecutor

import vlib
from vlib import Inconclusive

SPEC = os.path.join(vlib.VERIF, "specs", "pickle")
# how the model's encoder treats a host object reached again while under construction
HOSTCYCLES = os.environ.get("VERIF_FP_HOSTCYCLES", "standin")

T = "@target()\ndef default():\n"


def programs():
    P = []

    def add(feature, build, variants=(), extra=None, corrupt=False):
        files = {"BUILD.dawn": build}
        files.update(extra or {})
        P.append({"id": "fp-%d-%s" % (len(P), feature), "feature": feature, "files": files, "corrupt": corrupt,
                  "variants": [{"name": n, "kind": k, "target": "//:default", "files": f} for (n, k, f) in variants]})

    for v1, v2 in (("1", "2"), ("255", "256"), ("256", "65536"), ("65535", "65536"), ("2147483647", "2147483648"), ("\"a\"", "\"b\""),
                   ("(1, [2, 3])", "(1, [2, 4])"), ("{\"k\": 1}", "{\"k\": 2}"), ("1.5", "2.5"), ("True", "False"), ("None", "0")):
        add("global", "K = %s\n%s    print(K)\n" % (v1, T),
            [("value", "referenced", {"BUILD.dawn": "K = %s\n%s    print(K)\n" % (v2, T)}),
             ("unreferenced-global", "unreferenced", {"BUILD.dawn": "K = %s\nU = 7\n%s    print(K)\n" % (v1, T)})], corrupt=(v1 in ("1", "256")))
    add("constant", T + "    print(41)\n", [("value", "referenced", {"BUILD.dawn": T + "    print(42)\n"}),
                                             ("comment", "unreferenced", {"BUILD.dawn": "# a comment\n" + T + "    print(41)\n"})], corrupt=True)
    add("code", T + "    x = 1\n    print(x)\n", [("statement", "referenced", {"BUILD.dawn": T + "    x = 1\n    x += 1\n    print(x)\n"})])
    add("default-arg", "@target()\ndef default(t, x=[1, 2], y={\"a\": (1, 2)}):\n    print(x, y)\n",
        [("value", "referenced", {"BUILD.dawn": "@target()\ndef default(t, x=[1, 3], y={\"a\": (1, 2)}):\n    print(x, y)\n"})])
    add("closure", "def mk(v):\n    def inner():\n        print(v)\n    return inner\ntarget(name=\"default\", function=mk(5))\n",
        [("free-variable", "referenced", {"BUILD.dawn": "def mk(v):\n    def inner():\n        print(v)\n    return inner\ntarget(name=\"default\", function=mk(6))\n"})])
    two = "def mk(v):\n    def inner():\n        return v\n    return inner\nA = mk(%s)\nB = mk(%s)\n" + T + "    print(A, B)\n"
    add("two-closures-of-one-def", two % ("1", "2"), [("second-captured-value", "referenced", {"BUILD.dawn": two % ("1", "3")}),
                                                       ("first-captured-value", "referenced", {"BUILD.dawn": two % ("5", "2")})])
    chain = "def wrap(f, k):\n    def inner():\n        return (f, k)\n    return inner\nC = wrap(wrap(wrap(None, %s), %s), %s)\n" + T + "    print(C)\n"
    add("closure-chain", chain % ("1", "2", "3"), [("innermost-captured-value", "referenced", {"BUILD.dawn": chain % ("9", "2", "3")}),
                                                   ("middle-captured-value", "referenced", {"BUILD.dawn": chain % ("1", "8", "3")})])
    dflt = "def mk(d):\n    def inner(x=d):\n        return x\n    return inner\nP = [mk([1]), mk([2])]\n" + T + "    print(P)\n"
    add("two-defaults-of-one-def", dflt, [("second-default", "referenced", {"BUILD.dawn": dflt.replace("mk([2])", "mk([3])")})])
    add("nested", T + "    def inner(a):\n        return a + 10\n    f = lambda z: inner(z) * 2\n    print(f(1))\n",
        [("inner-constant", "referenced", {"BUILD.dawn": T + "    def inner(a):\n        return a + 11\n    f = lambda z: inner(z) * 2\n    print(f(1))\n"})])
    lam = T + "    f = lambda: %s\n    g = lambda: %s\n    print(f(), g())\n"
    add("two-lambdas", lam % ("1", "2"), [("first-lambda", "referenced", {"BUILD.dawn": lam % ("3", "2")}),
                                          ("second-lambda", "referenced", {"BUILD.dawn": lam % ("1", "4")})])
    sl = "STAGES = (\"a\", \"b\", \"c\", \"d\")\nQUICK = STAGES[%s]\n" + T + "    print(STAGES, QUICK)\n"
    add("tuple-slices", sl % ":3", [("slice-end", "referenced", {"BUILD.dawn": sl % ":2"}), ("slice-start", "referenced", {"BUILD.dawn": sl % "1:3"})])
    ss = "S = \"abcdefgh\"\nP = S[%s]\nL = [1, 2, 3, 4]\nM = L[%s]\n" + T + "    print(S, P, L, M)\n"
    add("string-and-list-slices", ss % (":4", ":3"), [("string-slice", "referenced", {"BUILD.dawn": ss % (":5", ":3")}),
                                                      ("list-slice", "referenced", {"BUILD.dawn": ss % (":4", ":2")})])
    add("int-and-float", "K = 1\n" + T + "    print(K)\n", [("int-to-float", "referenced", {"BUILD.dawn": "K = 1.0\n" + T + "    print(K)\n"})])
    add("bound-method", "FMT = \"hello {}\".format\n" + T + "    print(FMT(\"x\"))\n",
        [("receiver", "referenced", {"BUILD.dawn": "FMT = \"goodbye {}\".format\n" + T + "    print(FMT(\"x\"))\n"})])
    add("global-builtin", "F = sorted\n" + T + "    print(F([2, 1]))\n", [("other-builtin", "referenced", {"BUILD.dawn": "F = reversed\n" + T + "    print(F([2, 1]))\n"})])
    add("kwonly-without-default", "def helper(a=1, *, b):\n    return a + b\n" + T + "    print(helper(b=2))\n",
        [("helper-body", "referenced", {"BUILD.dawn": "def helper(a=1, *, b):\n    return a - b\n" + T + "    print(helper(b=2))\n"})])
    add("helper-signature", "def h(a):\n    return a\n" + T + "    print(h(1))\n",
        [("varargs", "referenced", {"BUILD.dawn": "def h(*a):\n    return a\n" + T + "    print(h(1))\n"})])
    add("helper-signature-kwargs", "def h(kw):\n    return kw\n" + T + "    print(h(kw=1))\n",
        [("kwargs", "referenced", {"BUILD.dawn": "def h(**kw):\n    return kw\n" + T + "    print(h(kw=1))\n"})])
    # the name of a parameter is part of the code (callers pass it by keyword) although the
    # bytecode addresses parameters by index
    add("helper-parameter-renamed", "def greet(name):\n    return \"hi \" + name\n" + T + "    print(greet(\"w\"))\n",
        [("renamed", "referenced", {"BUILD.dawn": "def greet(who):\n    return \"hi \" + who\n" + T + "    print(greet(\"w\"))\n"})])
    add("nested-kwonly-parameter-renamed", T + "    def fmt(x, *, width):\n        return str(x) + str(width)\n    print(fmt(1, **{\"width\": 2}))\n",
        [("renamed", "referenced", {"BUILD.dawn": T + "    def fmt(x, *, pad):\n        return str(x) + str(pad)\n    print(fmt(1, **{\"width\": 2}))\n"})])
    add("varargs-parameter-renamed", "def h(*xs, **opts):\n    return (xs, opts)\n" + T + "    print(h(1))\n",
        [("renamed", "referenced", {"BUILD.dawn": "def h(*ys, **opts):\n    return (ys, opts)\n" + T + "    print(h(1))\n"})])
    # what the interpreter holds for "no value" is not a value the program could have written
    add("kwonly-gains-marker-like-default", "def helper(a=1, *, b):\n    return (a, b)\n" + T + "    print(helper(b=2))\n",
        [("default-added", "referenced", {"BUILD.dawn": "def helper(a=1, *, b=\"<mandatory>\"):\n    return (a, b)\n" + T + "    print(helper(b=2))\n"})])
    add("free-variable-gains-marker-like-value", "def outer():\n    def inner():\n        return y\n    if False:\n        y = 1\n    return inner\nG = outer()\n" + T + "    print(G)\n",
        [("assigned", "referenced", {"BUILD.dawn": "def outer():\n    def inner():\n        return y\n    if True:\n        y = \"<unassigned>\"\n    return inner\nG = outer()\n" + T + "    print(G)\n"})])
    # values predeclared by the embedding program, reached in other ways than a literal attribute
    for feat, body in (("predeclared-struct-whole", "    print(cfg)\n"), ("predeclared-struct-attribute", "    print(cfg.mode)\n"),
                       ("predeclared-struct-getattr", "    print(getattr(cfg, \"mo\" + \"de\"))\n"),
                       ("predeclared-module-whole", "    print(tools)\n"), ("predeclared-module-attribute", "    print(tools.cc)\n")):
        add(feat, T + body, [("member-value", "referenced", {".fpbuiltins": "release"})], extra={".fpbuiltins": "debug"})
    add("predeclared-module-through-helper", "def show(m):\n    return m.cc\n" + T + "    print(show(tools))\n",
        [("member-value", "referenced", {".fpbuiltins": "release"})], extra={".fpbuiltins": "debug"})
    # a function is a hashable value: it may be a dictionary key or a set element
    add("dict-keyed-by-function", "def a():\n    pass\nTABLE = {a: \"one\"}\n" + T + "    print(TABLE[a])\n",
        [("value-under-function-key", "referenced", {"BUILD.dawn": "def a():\n    pass\nTABLE = {a: \"two\"}\n" + T + "    print(TABLE[a])\n"})])
    # values of different kinds that are written alike when enumerated
    add("range-against-list", "V = range(3)\n" + T + "    print(V)\n", [("kind", "referenced", {"BUILD.dawn": "V = [0, 1, 2]\n" + T + "    print(V)\n"})])
    add("tuple-against-list", "V = (0, 1, 2)\n" + T + "    print(V)\n", [("kind", "referenced", {"BUILD.dawn": "V = [0, 1, 2]\n" + T + "    print(V)\n"})])
    add("string-iterators", "V = \"abc\".codepoints()\nW = \"abc\".elems()\n" + T + "    print(list(V), list(W))\n")
    add("unassigned-free-variable", "def outer():\n    def inner():\n        return y\n    if False:\n        y = 1\n    return inner\nG = outer()\n" + T + "    print(G)\n")
    add("self-containing-list", "X = [1]\nX.append(X)\n" + T + "    print(len(X))\n",
        [("element", "referenced", {"BUILD.dawn": "X = [2]\nX.append(X)\n" + T + "    print(len(X))\n"})])
    bm = "G = %s\n" + T + "    print(G(%s))\n"
    add("bound-method-of-dict", bm % ("{\"a\": 1}.get", "\"a\""), [("receiver-contents", "referenced", {"BUILD.dawn": bm % ("{\"a\": 2}.get", "\"a\"")})])
    add("bound-method-of-list", bm % ("[1, 2, 3].index", "2"), [("receiver-contents", "referenced", {"BUILD.dawn": bm % ("[2, 1, 3].index", "2")})])
    big = "BIG = list(range(%s))\n" + T + "    print(len(BIG), BIG[-1])\n"
    add("list-batch-boundary", big % "1000", [("grown-by-one", "referenced", {"BUILD.dawn": big % "1001"})])
    add("list-batch-boundary-2", "BIG = [0] * 1000 + [%s] + [0] * 1200\n" % "1" + T + "    print(BIG[1000])\n",
        [("element-1000", "referenced", {"BUILD.dawn": "BIG = [0] * 1000 + [%s] + [0] * 1200\n" % "2" + T + "    print(BIG[1000])\n"})])
    add("set-batch-boundary", "S = set(range(%s))\n" % "1000" + T + "    print(len(S))\n",
        [("grown-by-one", "referenced", {"BUILD.dawn": "S = set(range(%s))\n" % "1001" + T + "    print(len(S))\n"})])
    add("helper", "def helper():\n    return 3\n" + T + "    print(helper())\n",
        [("helper-body", "referenced", {"BUILD.dawn": "def helper():\n    return 4\n" + T + "    print(helper())\n"})], corrupt=True)
    add("loaded-helper", "load(\"//:lib.dawn\", \"helper\")\n" + T + "    print(helper())\n",
        [("helper-body", "referenced", {"lib.dawn": "def helper():\n    return 4\n"})], extra={"lib.dawn": "def helper():\n    return 3\n"})
    add("recursion", "def fact(n):\n    return 1 if n <= 1 else n * fact(n - 1)\n" + T + "    print(fact)\n",
        [("body", "referenced", {"BUILD.dawn": "def fact(n):\n    return 1 if n <= 2 else n * fact(n - 1)\n" + T + "    print(fact)\n"})], corrupt=True)
    add("mutual-recursion", "def even(n):\n    return True if n == 0 else odd(n - 1)\ndef odd(n):\n    return False if n == 0 else even(n - 1)\n" + T + "    print(even)\n",
        [("other-body", "referenced", {"BUILD.dawn": "def even(n):\n    return True if n == 0 else odd(n - 1)\ndef odd(n):\n    return False if n == 1 else even(n - 1)\n" + T + "    print(even)\n"})])
    add("recursion-3", "def a(n):\n    return b(n)\ndef b(n):\n    return c(n)\ndef c(n):\n    return a(n) if n else 0\n" + T + "    print(a, c)\n")
    add("self-reference", "@target()\ndef default():\n    print(default)\n")
    add("recursion-through-data", "FUNCS = {}\ndef a():\n    return FUNCS[\"a\"]\nFUNCS[\"a\"] = a\n" + T + "    print(a)\n")
    # (a closure that refers to itself through its own free variable is not generated: the Starlark
    # interpreter itself overflows the stack when it freezes such a module, before dawn sees it)
    add("closure-over-recursive", "def fact(n):\n    return 1 if n <= 1 else n * fact(n - 1)\ndef mk(f):\n    def inner():\n        return f\n    return inner\nG = mk(fact)\n" + T + "    print(G)\n")
    add("large-list", "BIG = list(range(1500))\n" + T + "    print(len(BIG))\n",
        [("element", "referenced", {"BUILD.dawn": "BIG = list(range(1499)) + [7]\n" + T + "    print(len(BIG))\n"})])
    add("large-nested", "NEST = [list(range(1001)), 7, {str(i): i for i in range(1200)}]\n" + T + "    print(len(NEST))\n",
        [("inner-element", "referenced", {"BUILD.dawn": "NEST = [list(range(1001)), 8, {str(i): i for i in range(1200)}]\n" + T + "    print(len(NEST))\n"})])
    add("large-set-in-tuple", "S = (set(range(2500)), \"x\")\n" + T + "    print(len(S))\n")
    add("cyclic-data", "L = [1, 2]\nL.append(L)\nD = {\"self\": None}\nD[\"self\"] = D\n" + T + "    print(len(L), len(D))\n",
        [("element", "referenced", {"BUILD.dawn": "L = [1, 3]\nL.append(L)\nD = {\"self\": None}\nD[\"self\"] = D\n" + T + "    print(len(L), len(D))\n"})])
    add("shared-data", "X = [1, 2, 3]\nY = [X, X, (X,)]\n" + T + "    print(Y)\n")
    add("predeclared", T + "    c = Cache()\n    print(host.os, host.arch, len([1]), package, c, path, label, glob, contains, fail, parse_flag, target)\n", corrupt=True)
    add("universe", T + "    print(str, int, dict, list, sorted, range(3), True, None, hash, zip)\n")
    add("other-target", "@target()\ndef other():\n    pass\n@target(deps=[\":other\"])\ndef default():\n    print(other, other.label)\n",
        [("other-body", "unreferenced", {"BUILD.dawn": "@target()\ndef other():\n    print(1)\n@target(deps=[\":other\"])\ndef default():\n    print(other, other.label)\n"})])
    add("flag", "F = parse_flag(\"mode\", default=\"fast\")\n" + T + "    print(F)\n",
        [("default", "referenced", {"BUILD.dawn": "F = parse_flag(\"mode\", default=\"slow\")\n" + T + "    print(F)\n"})])
    add("bytes-float", "B = b\"\\x00\\xff\" * 200\nFL = [0.0, -0.0, 1e300, float(\"inf\")]\n" + T + "    print(B, FL)\n")
    add("big-int", "N = 1 << 200\nM = -(1 << 63)\n" + T + "    print(N, M)\n", [("value", "referenced", {"BUILD.dawn": "N = (1 << 200) + 1\nM = -(1 << 63)\n" + T + "    print(N, M)\n"})])
    add("deep-nesting", "DEEP = " + "[" * 60 + "1" + "]" * 60 + "\n" + T + "    print(DEEP)\n")
    add("many-functions", "".join("def f%d():\n    return %s\n" % (i, "f%d()" % (i - 1) if i else "0") for i in range(40)) + T + "    print(f39)\n")
    return P


def design_check(tier):
    n, k = (3, 2) if tier == "quick" else (3, 3)
    cfg = ("SPECIFICATION Spec\nCONSTANTS\n  N = %d\n  K = %d\n  L = 3\n  Mode = \"refs\"\n  Repush = FALSE\n  HostCycles = \"%s\"\nINVARIANT Inv\nCHECK_DEADLOCK FALSE\n"
           % (n, k, HOSTCYCLES))
    rc, out, wd = vlib.tlc(SPEC, "PickleMC", cfg="refs.cfg", workers=16, timeout=3000, heap="10g", files={"refs.cfg": cfg})
    gen, dist = vlib.tlc_stats(out)
    return {"ok": "No error has been found" in out, "distinct": dist, "generated": gen, "hostcycles": HOSTCYCLES, "errors": vlib.tlc_error(out)[:3]}


def pipeline(tier):
    t0 = time.time()
    sd = vlib.seed()
    wd = vlib.scratch("fp-")
    res = {"family": "fp", "tier": tier, "seed": sd}
    with ThreadPoolExecutor(max_workers=2) as ex:
        fd = ex.submit(design_check, tier)
        cases = programs()
        cpath = os.path.join(wd, "cases.ndjson")
        with open(cpath, "w") as f:
            for c in cases:
                f.write(json.dumps(c) + "\n")
        binary = vlib.build_test("", wd, name="dawn")
        nsh = 8

        def shard(i):
            env = dict(os.environ, VERIF_CASES=cpath, VERIF_OUT=os.path.join(wd, "traces-%d.ndjson" % i), VERIF_SHARD="%d/%d" % (i, nsh), VERIF_SEED=str(sd))
            open(env["VERIF_OUT"], "w").close()
            p = vlib.run_cmd([binary, "-test.run", "^TestVerifFp$", "-test.timeout", "3000s"], env=env, cwd=wd)
            if p.returncode != 0:
                raise Inconclusive("fingerprint harness failed (exit %d):\n%s" % (p.returncode, p.stdout[-3000:]))
            return [json.loads(l) for l in open(env["VERIF_OUT"])]

        lines = []
        with ThreadPoolExecutor(max_workers=nsh) as ex2:
            for r in ex2.map(shard, range(nsh)):
                lines.extend(r)
        res["design"] = fd.result()
    res["programs"] = len(lines)
    res["calls"] = {}
    for l in lines:
        for e in l["events"]:
            res["calls"][e["ev"]] = res["calls"].get(e["ev"], 0) + 1
    res["load_failures"] = [e for l in lines for e in l["events"] if e["ev"] == "LoadFailed"][:5]
    by_id = {l["id"]: l for l in lines}
    cfgtxt = "SPECIFICATION Spec\nCONSTANTS\n  Repush = FALSE\n  HostCycles = \"none\"\nINVARIANT Done\nCHECK_DEADLOCK FALSE\n"
    with open(os.path.join(wd, "P.cfg"), "w") as f:
        f.write(cfgtxt)
    viols, n = vlib.eval_traces(SPEC, "PickleTraceP", os.path.join(wd, "P.cfg"),
                                [{"id": l["id"], "events": [{k: v for k, v in e.items() if k != "msg"} for e in l["events"]]} for l in lines],
                                shards=4, timeout=1800)
    out = []
    for v in viols:
        for x in v["viol"]:
            e = by_id[v["id"]]["events"][x["at"] - 1]
            out.append({"prop": x["prop"], "what": x["what"], "id": v["id"], "event": e})
    res["violations"] = out
    res["samples"] = [lines[0]["events"][0], lines[-1]["events"][-1]]
    res["wall_s"] = time.time() - t0
    return res


def sig_of(v):
    e = v["event"]
    return "%s|%s|%s" % (v["prop"], v["what"], e.get("feature") or e.get("kind"))


def check(prop, tier):
    t0 = time.time()
    res = vlib.FamilyRun("fp", tier).get(lambda: pipeline(tier))
    if not res["design"]["ok"]:
        raise Inconclusive("TLC: the encoder model does not terminate on every reference graph (HostCycles=%s): %s" % (res["design"]["hostcycles"], res["design"]["errors"]))
    if res["load_failures"]:
        raise Inconclusive("a generated program does not load: %s" % res["load_failures"][:2])
    viols = [dict(v, sig=sig_of(v)) for v in res["violations"] if v["prop"] == prop]
    n = res["calls"].get("Fingerprint", 0) + res["calls"].get("FpPair", 0)
    cov = {"evaluations": n, "distinct_nontrivial": res["programs"], "samples": res["samples"], "real_calls": res["calls"],
           "reference_graphs_model_checked": res["design"]["distinct"], "exhaustive": False,
           "rule": "one generated project per feature (global/constant/code/default/closure/nested/helper/loaded helper, recursion, mutual and 3-way recursion, recursion through data and closures, large/nested/cyclic/shared data, predeclared and universal values, other targets, flags, big ints, deep nesting); every target fingerprinted in a child process, reloaded in a second process, and re-fingerprinted after editing a referenced / unreferenced part; distinct = distinct programs",
           "family_wall_s": round(res["wall_s"], 1)}
    assumptions = ["the Starlark compiler is trusted to produce the same code for the same text", "child process exit status distinguishes crash (stack overflow) from error"]
    return vlib.conclude(prop, tier, "exploration", cov, t0, viols, assumptions,
                         lambda v: {"family": "fp", "property": prop, "violation": v})
