#!/usr/bin/env python3
"""Writes MANIFEST.json from the table below (development-time helper)."""
import json, os
V = os.path.dirname(os.path.dirname(os.path.abspath(__file__)))
props = {json.loads(l)["id"]: json.loads(l) for l in open(os.path.join(V, "properties.jsonl"))}

CLAIMED = {
 "C04": dict(engine="runner", level="model_checking", design="DESIGN.md §4 C04/C05/C09",
   text="TLC checks the design spec Runner.tla composed with the monitor RunnerMon.tla exhaustively over all small dependency graphs (every interleaving, limits 1..3); the real runner.Run is then driven by TLC-generated, random, PCT and free-running schedules and every real execution is evaluated by the same TLA+ monitor (once-only, dependencies ended before return, faithful results, build result = root result).",
   note="Go sync/atomic/synctest trusted; interleavings below hook grain only by stress; bounded graphs (exhaustive <=3 labels, random <=8, wide <=16).",
   technique="TLA+ design spec + TLC exhaustive check; TLC-generated schedules replayed under a controlled scheduler; real traces evaluated by a TLA+ monitor and validated against the design spec"),
 "C05": dict(engine="runner", level="model_checking", design="DESIGN.md §4 C04/C05/C09",
   text="Termination (<>Finished under weak fairness) and cycle reporting are model-checked on Runner.tla for all small digraphs incl. self-loops and overlapping cycles; on the real code deadlock is decided exactly by the controlled scheduler (synctest quiescence), hangs by watchdog in free-running mode; the monitor requires cyclic <=> cyclic-dependency error.",
   note="Same trusted base as C04; a hang in free-running mode is declared after 20 s without completion.",
   technique="TLA+ liveness + deadlock check in TLC; controlled-scheduler replay with exact deadlock detection; TLA+ monitor over real traces"),
 "C09": dict(engine="runner", level="model_checking", design="DESIGN.md §4 C04/C05/C09",
   text="Gate conservation (capacity + holders = limit), no lost wake-up/signal and completion with limit 1 are invariants/liveness of Runner.tla checked by TLC; on the real code the monitor counts targets inside LoadTarget/Evaluate but outside EvaluateTargets against the limit set by CPU affinity, and checks the white-box free-slot count at quiescent points and at the end.",
   note="The limit is runtime.NumCPU(), controlled with taskset; white-box capacity read by reflection (omitted if the implementation is refactored).",
   technique="TLA+ invariants (gate conservation) in TLC; real traces evaluated by the TLA+ monitor under taskset-limited parallelism"),
 "C06": dict(engine="modload", level="model_checking", design="DESIGN.md §4 C06",
   text="TLC checks ModLoad.tla (registry, loading edges, chain walk, cond waits; one action per yield-to-yield segment) composed with ModLoadMon.tla for safety, deadlock freedom and termination over curated and random load graphs (shared helpers, 2/3-cycles entered from several roots, self-loads, failing modules); the real dawn.Load runs on generated project trees under TLC-generated, random and PCT schedules and free-running; every execution is evaluated by the monitor and controlled traces are validated against ModLoad.tla. The spec also models the defective walk found in the original code (Walk = current), which TLC shows to deadlock.",
   note="synctest cannot see through a goroutine blocked on a mutex: a stalled schedule is re-executed outside a bubble with wall-clock quiescence and then drained; a hang there is the verdict.",
   technique="TLA+ design spec + TLC (safety, deadlock, liveness); TLC-generated schedules replayed on real dawn.Load under a controlled scheduler; TLA+ monitor over real traces; trace validation"),
 "C20": dict(engine="cache", level="model_checking", design="DESIGN.md §4 C20",
   text="TLC checks Cache.tla (readers/writer lock, fast probe, locked re-probe, call, store; one action per lock operation) composed with CacheMon.tla for 2-4 callers x 1-2 keys x failure plans; the real Cache().once is driven through its Starlark interface by TLC-generated, random and PCT schedules and free-running with a slow callable; every real execution is evaluated by the monitor and controlled traces are validated against Cache.tla.",
   note="sync.RWMutex trusted; callable does not re-enter the cache; failures may be shared by overlapping calls (single-flight) but not cached.",
   technique="TLA+ design spec + TLC; TLC-generated schedules replayed under a controlled scheduler; TLA+ monitor over real traces; trace validation against the design spec"),
}

checks = []
for pid in sorted(CLAIMED):
    c = CLAIMED[pid]
    checks.append({
        "property_id": pid,
        "quick_cmd": "./check %s quick" % pid,
        "thorough_cmd": "./check %s thorough" % pid,
        "evidence_file": "evidence/%s.json" % pid,
        "replay_cmd_template": "./check %s --replay {path}" % pid,
        "engine": c["engine"],
        "level_claimed": {"category": c["level"], "text": c["text"], "design_ref": c["design"]},
        "level_note": c["note"],
        "technique": c["technique"],
    })

NA_REASON = "not yet covered by a registered check (work in progress; see DESIGN.md §10 build order)"
manifest = {
    "version": 1,
    "setup_cmd": "python3 tools/setup.py",
    "hooks": {
        "guard": "verif",
        "enable": "go1.26 test -c -tags verif -overlay <generated overlay.json> (harness test files are injected from /verif/harness, nothing is copied into /repo)",
        "baseline_off_cmd": "cd /repo && GOFLAGS=-mod=mod GOPROXY=off GOSUMDB=off GOTOOLCHAIN=local go test -json -vet=off -count=1 -timeout 25m ./...",
        "source_commits": ["d2a456e", "4ef7f06", "cd363d8"],
        "add_only": True,
    },
    "engines": [
        {"name": "runner", "path": "tools/fam_runner.py", "serves_properties": ["C04", "C05", "C09"],
         "kind_free_text": "TLC (design check, schedule generation, monitor evaluation, trace validation) + Go overlay harness with synctest controlled scheduler"},
        {"name": "modload", "path": "tools/fam_modload.py", "serves_properties": ["C06"],
         "kind_free_text": "TLC + Go overlay harness in package dawn driving dawn.Load on generated project trees"},
        {"name": "cache", "path": "tools/fam_cache.py", "serves_properties": ["C20"],
         "kind_free_text": "TLC + Go overlay harness in package dawn (controlled scheduler, stress)"},
    ],
    "checks": checks,
    "not_applicable": [{"property_id": pid, "reason": NA_REASON} for pid in sorted(props) if pid not in CLAIMED],
    "notes": "All checks go through ./check <ID> <tier>; exit 2 = inconclusive (harness/tool failure), never a verdict.",
}
json.dump(manifest, open(os.path.join(V, "MANIFEST.json"), "w"), indent=1)
print("wrote MANIFEST.json with", len(checks), "checks")
