#!/usr/bin/env python3
"""Writes MANIFEST.json from the table below (development-time helper)."""
import json, os
V = os.path.dirname(os.path.dirname(os.path.abspath(__file__)))
props = {json.loads(l)["id"]: json.loads(l) for l in open(os.path.join(V, "properties.jsonl"))}

CLAIMED = {
 "C01": dict(engine="build", level="model_checking", design="DESIGN.md §4 C01/C02/C03/C13/C14",
   text='TLC checks Build.tla (records, stamps, run-local changed flags, every persistent effect its own step) composed with BuildMon.tla for all histories of bounded length over project shapes (chain, generated file, diamond, always, reshape); the design-level staleness of the original stamping (Stamp = env) is reproduced by TLC and the repaired design (fresh run ID per execution) is model-checked. The real dawn is driven through TLC-generated histories and harness histories (atom kinds x value classes, partial builds, REPL sessions, directory renames, failing bodies, process deaths) with a fresh Load+Run per step; the monitor requires every target in the closure of a successful build to have executed since its inputs last changed, and outputs to equal a from-scratch build.',
   note="process death = os.Exit at a named hook (written data survives); os.Rename atomic; bodies deterministic; bounded histories (TLC: <=3 edits, <=4 builds, 1 crash, 1 failure; harness: <=12 steps).",
   technique="TLA+ design spec + TLC exhaustive check; TLC-generated histories replayed on the real dawn (child processes for crashes); real traces evaluated by a TLA+ monitor; spec-predicted executed sets compared with real ones"),
 "C02": dict(engine="build", level="model_checking", design="DESIGN.md §4 C01/C02/C03/C13/C14",
   text='Same machinery; the monitor flags every target body execution (logged by the body itself) in a freshly loaded, non-forced build that no input change, failure, interruption or regenerated source justifies: rebuilds of unchanged trees, touches, same-content rewrites, comment/docstring edits, edits outside the closure.',
   note="process death = os.Exit at a named hook (written data survives); os.Rename atomic; bodies deterministic; bounded histories (TLC: <=3 edits, <=4 builds, 1 crash, 1 failure; harness: <=12 steps).",
   technique="TLA+ design spec + TLC exhaustive check; TLC-generated histories replayed on the real dawn (child processes for crashes); real traces evaluated by a TLA+ monitor; spec-predicted executed sets compared with real ones"),
 "C03": dict(engine="build", level="model_checking", design="DESIGN.md §4 C01/C02/C03/C13/C14",
   text='Build.tla has a Crash action enabled between any two persistent effects (body, temp write, rename) and failing bodies; on the real code the build runs in a child process that exits at every named crash point x label x hit (before/inside/after bodies, after mkdir/create/encode/close of the record write, after the save, during the index write); the monitor requires the state to stay loadable, staleness never to be remembered, and outputs to converge to a from-scratch build.',
   note="process death = os.Exit at a named hook (written data survives); os.Rename atomic; bodies deterministic; bounded histories (TLC: <=3 edits, <=4 builds, 1 crash, 1 failure; harness: <=12 steps).",
   technique="TLA+ design spec + TLC exhaustive check; TLC-generated histories replayed on the real dawn (child processes for crashes); real traces evaluated by a TLA+ monitor; spec-predicted executed sets compared with real ones"),
 "C13": dict(engine="build", level="model_checking", design="DESIGN.md §4 C01/C02/C03/C13/C14",
   text='Dry runs are actions of Build.tla; on the real code dry runs are inserted in histories (also under a transient I/O fault): no body may run, digests of .dawn/build and of the tree must be unchanged, the evaluating set must equal that of the following real build (up to targets downstream of a failure), and twin histories with/without the dry runs must execute the same targets.',
   note="process death = os.Exit at a named hook (written data survives); os.Rename atomic; bodies deterministic; bounded histories (TLC: <=3 edits, <=4 builds, 1 crash, 1 failure; harness: <=12 steps).",
   technique="TLA+ design spec + TLC exhaustive check; TLC-generated histories replayed on the real dawn (child processes for crashes); real traces evaluated by a TLA+ monitor; spec-predicted executed sets compared with real ones"),
 "C14": dict(engine="build", level="model_checking", design="DESIGN.md §4 C01/C02/C03/C13/C14",
   text="Collections are part of Build.tla's Load action (with reshaped projects); on the real code GC runs after fresh and index-only loads: records of live labels must be byte-identical, records of removed labels and stray temporaries gone, nothing outside .dawn/build touched, and twin histories with/without collections must execute the same targets.",
   note="process death = os.Exit at a named hook (written data survives); os.Rename atomic; bodies deterministic; bounded histories (TLC: <=3 edits, <=4 builds, 1 crash, 1 failure; harness: <=12 steps).",
   technique="TLA+ design spec + TLC exhaustive check; TLC-generated histories replayed on the real dawn (child processes for crashes); real traces evaluated by a TLA+ monitor; spec-predicted executed sets compared with real ones"),
 "C04": dict(engine="runner", level="model_checking", design="DESIGN.md §4 C04/C05/C09",
   text="TLC checks the design spec Runner.tla composed with the monitor RunnerMon.tla exhaustively over all small dependency graphs (every interleaving, limits 1..3); the real runner.Run is then driven by TLC-generated, random, PCT and free-running schedules and every real execution is evaluated by the same TLA+ monitor (once-only, dependencies ended before return, faithful results, build result = root result).",
   note="Go sync/atomic/synctest trusted; interleavings below hook grain only by stress; bounded graphs (exhaustive <=3 labels, random <=8, wide <=16).",
   technique="TLA+ design spec + TLC exhaustive check; TLC-generated schedules replayed under a controlled scheduler; real traces evaluated by a TLA+ monitor and validated against the design spec"),
 "C05": dict(engine="runner", level="model_checking", design="DESIGN.md §4 C04/C05/C09",
   text="Termination (<>Finished under weak fairness) and cycle reporting are model-checked on Runner.tla for all small digraphs incl. self-loops and overlapping cycles; on the real code deadlock is decided exactly by the controlled scheduler (synctest quiescence), hangs by watchdog in free-running mode; the monitor requires cyclic <=> cyclic-dependency error.",
   note="Same trusted base as C04; a hang in free-running mode is declared after 20 s without completion.",
   technique="TLA+ liveness + deadlock check in TLC; controlled-scheduler replay with exact deadlock detection; TLA+ monitor over real traces"),
 "C09": dict(engine="runner", level="model_checking", design="DESIGN.md §4 C04/C05/C09",
   text="Gate conservation (capacity + holders = limit), no lost wake-up/signal and completion with limit 1 are invariants/liveness of Runner.tla checked by TLC; on the real code the monitor counts targets inside LoadTarget/Evaluate but outside EvaluateTargets against the limit set by CPU affinity, and checks the white-box free-slot count at quiescent points and at the end.",
   note="The limit is runtime.NumCPU(), controlled with taskset; white-box capacity read by reflection (omitted if the implementation is refactored).",
   technique="TLA+ invariants (gate conservation) in TLC; real traces evaluated by the TLA+ monitor under taskset-limited parallelism"),
 "C06": dict(engine="modload", level="model_checking", design="DESIGN.md §4 C06",
   text="TLC checks ModLoad.tla (registry, loading edges, chain walk, cond waits; one action per yield-to-yield segment) composed with ModLoadMon.tla for safety, deadlock freedom and termination over curated and random load graphs (shared helpers, 2/3-cycles entered from several roots, self-loads, failing modules); the real dawn.Load runs on generated project trees under TLC-generated, random and PCT schedules and free-running; every execution is evaluated by the monitor and controlled traces are validated against ModLoad.tla. The spec also models the defective walk found in the original code (Walk = current), which TLC shows to deadlock.",
   note="synctest cannot see through a goroutine blocked on a mutex: a stalled schedule is re-executed outside a bubble with wall-clock quiescence and then drained; a hang there is the verdict.",
   technique="TLA+ design spec + TLC (safety, deadlock, liveness); TLC-generated schedules replayed on real dawn.Load under a controlled scheduler; TLA+ monitor over real traces; trace validation"),
 "C07": dict(engine="pickle", level="model_checking", design="DESIGN.md §4 C07/C15/C08",
   text="Pickle.tla models the encoder (memoize-before-contents, unmemoized tuples, host objects memoized after their arguments, batched container filling) and the decoder (stack machine with memo) over heap values with first-class sharing and cycles; TLC checks decode(encode(h)) isomorphic to h for every heap of the scope with batch = 2 (batch boundaries inside 3-element containers) and reproduces the original batching defect with Repush = TRUE. Every heap of the 2-node scope is built as a real Starlark value and round-tripped through the real codec, together with boundary integers, length classes and containers scaled to the real batch size at 11 nesting positions; the TLA+ monitor compares canonical forms (type, structure, contents, sharing) and runs the reference decoder on the real encoder's byte stream.",
   note="TLC integers are 32-bit, so integers travel as decimal text and byte assembly is decided on the real code for enumerated boundary values; Starlark value equality/hashing trusted.",
   technique="TLA+ reference model of the codec checked exhaustively by TLC on small scopes; TLC-enumerated cases executed on the real codec; real calls evaluated by a TLA+ monitor that runs the reference decoder on the real encoder's output"),
 "C15": dict(engine="pickle", level="model_checking", design="DESIGN.md §4 C07/C15/C08",
   text="The decoder model of Pickle.tla is total: TLC evaluates it on every op string up to length 4 (quick) / 5 (thorough) over a 22-op alphabet. Every op string of the scope is serialised and given to the real Decode with and without an unpickler, together with seeded byte-level corruptions of real encodings and random byte strings; the monitor accepts only value or error (never panic, nil-without-error, timeout) and compares the verdict with the reference decoder (drift).",
   note="Declared lengths beyond the input size are outside the property and skipped; corrupted record files on disk are exercised by the fingerprint harness.",
   technique="TLA+ decoder model checked for totality by TLC; TLC-enumerated op strings and mutated encodings decoded by the real code; outcomes evaluated by a TLA+ monitor"),
 "C20": dict(engine="cache", level="model_checking", design="DESIGN.md §4 C20",
   text="TLC checks Cache.tla (readers/writer lock, fast probe, locked re-probe, call, store; one action per lock operation) composed with CacheMon.tla for 2-4 callers x 1-2 keys x failure plans; the real Cache().once is driven through its Starlark interface by TLC-generated, random and PCT schedules and free-running with a slow callable; every real execution is evaluated by the monitor and controlled traces are validated against Cache.tla.",
   note="sync.RWMutex trusted; callable does not re-enter the cache; failures may be shared by overlapping calls (single-flight) but not cached.",
   technique="TLA+ design spec + TLC; TLC-generated schedules replayed under a controlled scheduler; TLA+ monitor over real traces; trace validation against the design spec"),
}

checks = []
for pid in sorted(CLAIMED):
    c = CLAIMED[pid]
    checks.append({
        "property_id": pid,
        "quick_cmd": "./check %s quick" % pid,
        "thorough_cmd": "./check %s thorough" % pid,
        "evidence_file": "evidence/%s.json" % pid,
        "replay_cmd_template": "./check %s --replay {path}" % pid,
        "engine": c["engine"],
        "level_claimed": {"category": c["level"], "text": c["text"], "design_ref": c["design"]},
        "level_note": c["note"],
        "technique": c["technique"],
    })

NA_REASON = "not yet covered by a registered check (work in progress; see DESIGN.md §10 build order)"
manifest = {
    "version": 1,
    "setup_cmd": "python3 tools/setup.py",
    "hooks": {
        "guard": "verif",
        "enable": "go1.26 test -c -tags verif -overlay <generated overlay.json> (harness test files are injected from /verif/harness, nothing is copied into /repo)",
        "baseline_off_cmd": "cd /repo && GOFLAGS=-mod=mod GOPROXY=off GOSUMDB=off GOTOOLCHAIN=local go test -json -vet=off -count=1 -timeout 25m ./...",
        "source_commits": ["d2a456e", "4ef7f06", "cd363d8"],
        "add_only": True,
    },
    "engines": [
        {"name": "runner", "path": "tools/fam_runner.py", "serves_properties": ["C04", "C05", "C09"],
         "kind_free_text": "TLC (design check, schedule generation, monitor evaluation, trace validation) + Go overlay harness with synctest controlled scheduler"},
        {"name": "build", "path": "tools/fam_build.py", "serves_properties": ["C01", "C02", "C03", "C13", "C14"],
         "kind_free_text": "TLC + Go overlay harness in package dawn materialising project shapes, fresh Load+Run per step, child processes for crash injection"},
        {"name": "pickle", "path": "tools/fam_pickle.py", "serves_properties": ["C07", "C15"],
         "kind_free_text": "TLC (codec model, case generation, monitor) + Go overlay harness in package pickle"},
        {"name": "modload", "path": "tools/fam_modload.py", "serves_properties": ["C06"],
         "kind_free_text": "TLC + Go overlay harness in package dawn driving dawn.Load on generated project trees"},
        {"name": "cache", "path": "tools/fam_cache.py", "serves_properties": ["C20"],
         "kind_free_text": "TLC + Go overlay harness in package dawn (controlled scheduler, stress)"},
    ],
    "checks": checks,
    "not_applicable": [{"property_id": pid, "reason": NA_REASON} for pid in sorted(props) if pid not in CLAIMED],
    "notes": "All checks go through ./check <ID> <tier>; exit 2 = inconclusive (harness/tool failure), never a verdict.",
}
json.dump(manifest, open(os.path.join(V, "MANIFEST.json"), "w"), indent=1)
print("wrote MANIFEST.json with", len(checks), "checks")
